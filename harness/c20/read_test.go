package c20

// Reading the real values back: through the Starlark API (attributes, proto.has, proto.get_field,
// Len/Index/Items/Get of the views) with a check of the Starlark type and range of every value, and
// a second time straight from the wrapped protoreflect.Message.  Both produce the render format of
// the model (model_test.go) so that contents are compared as strings.

import (
	"fmt"
	"math"
	"math/big"
	"sort"
	"strings"

	sproto "go.starlark.net/lib/proto"
	"go.starlark.net/starlark"
	"google.golang.org/protobuf/reflect/protoreflect"
	"google.golang.org/protobuf/types/dynamicpb"
)

type reader struct {
	th    *starlark.Thread
	nodes int
}

func (r *reader) call(fn starlark.Value, args ...starlark.Value) (starlark.Value, error) {
	return starlark.Call(r.th, fn, starlark.Tuple(args), nil)
}

// realCanon checks that v is a well-typed, in-range value of fd's scalar kind and returns its canon.
func realCanon(fd protoreflect.FieldDescriptor, v starlark.Value) (string, error) {
	k := fd.Kind()
	if lo, hi, ok := intRange(k); ok {
		i, ok := v.(starlark.Int)
		if !ok {
			return "", fmt.Errorf("%s field holds a %s (%v)", k, v.Type(), v)
		}
		b := i.BigInt()
		if b.Cmp(lo) < 0 || b.Cmp(hi) > 0 {
			return "", fmt.Errorf("%s field holds out-of-range value %v", k, b)
		}
		return canonInt(b), nil
	}
	switch k {
	case protoreflect.BoolKind:
		if b, ok := v.(starlark.Bool); ok {
			return canonBool(bool(b)), nil
		}
	case protoreflect.DoubleKind:
		if f, ok := v.(starlark.Float); ok {
			return canonFloat(float64(f)), nil
		}
	case protoreflect.FloatKind:
		if f, ok := v.(starlark.Float); ok {
			x := float64(f)
			if !math.IsNaN(x) && float64(float32(x)) != x {
				return "", fmt.Errorf("float field holds %v, not a float32 value", x)
			}
			return canonFloat(x), nil
		}
	case protoreflect.StringKind:
		if s, ok := v.(starlark.String); ok {
			return canonStr(string(s)), nil
		}
	case protoreflect.BytesKind:
		if s, ok := v.(starlark.Bytes); ok {
			return canonBytes(string(s)), nil
		}
	case protoreflect.EnumKind:
		if e, ok := v.(sproto.EnumValueDescriptor); ok {
			if e.Desc == nil {
				return "", fmt.Errorf("enum field holds an EnumValueDescriptor without descriptor")
			}
			if e.Desc.Parent() != protoreflect.Descriptor(fd.Enum()) {
				return "", fmt.Errorf("enum field of type %s holds a value of %s", fd.Enum().FullName(), e.Desc.Parent().FullName())
			}
			if fd.Enum().Values().ByNumber(e.Desc.Number()) == nil {
				return "", fmt.Errorf("enum field holds undeclared number %d", e.Desc.Number())
			}
			return canonEnum(string(fd.Enum().FullName()), int32(e.Desc.Number())), nil
		}
	}
	return "", fmt.Errorf("%s field holds a %s (%v)", k, v.Type(), v)
}

const readCap = 20000

func (r *reader) elem(sb *strings.Builder, fd protoreflect.FieldDescriptor, v starlark.Value) error {
	if isMsgKind(fd) {
		return r.msg(sb, v, fd.Message())
	}
	c, err := realCanon(fd, v)
	if err != nil {
		return err
	}
	sb.WriteString(c)
	return nil
}

func (r *reader) list(sb *strings.Builder, fd protoreflect.FieldDescriptor, v starlark.Value) (int, error) {
	rf, ok := v.(*sproto.RepeatedField)
	if !ok {
		return 0, fmt.Errorf("repeated field %s reads as %s", fd.Name(), v.Type())
	}
	n := rf.Len()
	sb.WriteByte('[')
	for i := 0; i < n; i++ {
		if i > 0 {
			sb.WriteByte(',')
		}
		if err := r.elem(sb, fd, rf.Index(i)); err != nil {
			return n, fmt.Errorf("[%d]: %v", i, err)
		}
	}
	sb.WriteByte(']')
	return n, nil
}

func (r *reader) mapf(sb *strings.Builder, fd protoreflect.FieldDescriptor, v starlark.Value) (int, error) {
	mf, ok := v.(*sproto.MapField)
	if !ok {
		return 0, fmt.Errorf("map field %s reads as %s", fd.Name(), v.Type())
	}
	items := mf.Items()
	if len(items) != mf.Len() {
		return 0, fmt.Errorf("map field %s: Len=%d but %d items", fd.Name(), mf.Len(), len(items))
	}
	type kv struct{ k, v string }
	var out []kv
	for _, it := range items {
		kc, err := realCanon(fd.MapKey(), it[0])
		if err != nil {
			return 0, fmt.Errorf("map key: %v", err)
		}
		var vb strings.Builder
		if err := r.elem(&vb, fd.MapValue(), it[1]); err != nil {
			return 0, fmt.Errorf("map value at %v: %v", it[0], err)
		}
		// Get must agree with Items.
		got, found, err := mf.Get(it[0])
		if err != nil || !found {
			return 0, fmt.Errorf("map Get(%v): found=%v err=%v", it[0], found, err)
		}
		if !isMsgKind(fd.MapValue()) {
			gc, err := realCanon(fd.MapValue(), got)
			if err != nil || gc != vb.String() {
				return 0, fmt.Errorf("map Get(%v) = %v disagrees with Items (%s)", it[0], got, vb.String())
			}
		}
		out = append(out, kv{kc, vb.String()})
	}
	sort.Slice(out, func(i, j int) bool { return lessKey(out[i].k, out[j].k) })
	sb.WriteByte('{')
	for i, e := range out {
		if i > 0 {
			sb.WriteByte(',')
			if e.k == out[i-1].k {
				return 0, fmt.Errorf("map field %s lists key %s twice", fd.Name(), e.k)
			}
		}
		sb.WriteString(e.k)
		sb.WriteString("=>")
		sb.WriteString(e.v)
	}
	sb.WriteByte('}')
	return len(out), nil
}

func (r *reader) getField(m *sproto.Message, fd protoreflect.FieldDescriptor) (val starlark.Value, has bool, err error) {
	var hv starlark.Value
	if fd.IsExtension() {
		fv := fieldDescValue(fd)
		if val, err = r.call(member["get_field"], m, fv); err != nil {
			return nil, false, fmt.Errorf("get_field(%s): %v", fd.Name(), err)
		}
		hv, err = r.call(member["has"], m, fv)
	} else {
		if val, err = m.Attr(string(fd.Name())); err != nil || val == nil {
			return nil, false, fmt.Errorf("reading .%s: %v", fd.Name(), err)
		}
		hv, err = r.call(member["has"], m, starlark.String(fd.Name()))
	}
	if err != nil {
		return nil, false, fmt.Errorf("proto.has(%s): %v", fd.Name(), err)
	}
	b, ok := hv.(starlark.Bool)
	if !ok {
		return nil, false, fmt.Errorf("proto.has(%s) returned %s", fd.Name(), hv.Type())
	}
	return val, bool(b), nil
}

func asMessage(v starlark.Value, md protoreflect.MessageDescriptor) (*sproto.Message, error) {
	m, ok := v.(*sproto.Message)
	if !ok {
		return nil, fmt.Errorf("message slot of type %s holds a %s", md.FullName(), v.Type())
	}
	if got := m.Message().ProtoReflect().Descriptor(); got != md {
		return nil, fmt.Errorf("message slot of type %s holds a %s", md.FullName(), got.FullName())
	}
	return m, nil
}

func (r *reader) msg(sb *strings.Builder, v starlark.Value, md protoreflect.MessageDescriptor) error {
	m, err := asMessage(v, md)
	if err != nil {
		return err
	}
	if r.nodes++; r.nodes > readCap {
		return fmt.Errorf("content tree larger than %d messages (cycle?)", readCap)
	}
	sb.WriteString(string(md.FullName()))
	sb.WriteByte('(')
	for _, fd := range fieldsOf(md) {
		val, has, err := r.getField(m, fd)
		if err != nil {
			return err
		}
		sb.WriteString(string(fd.Name()))
		sb.WriteByte('=')
		if has {
			sb.WriteByte('!')
		}
		switch {
		case fd.IsList():
			n, err := r.list(sb, fd, val)
			if err != nil {
				return fmt.Errorf(".%s%v", fd.Name(), err)
			}
			if has != (n > 0) {
				return fmt.Errorf(".%s: has=%v but %d elements", fd.Name(), has, n)
			}
		case fd.IsMap():
			n, err := r.mapf(sb, fd, val)
			if err != nil {
				return fmt.Errorf(".%s: %v", fd.Name(), err)
			}
			if has != (n > 0) {
				return fmt.Errorf(".%s: has=%v but %d entries", fd.Name(), has, n)
			}
		case isMsgKind(fd):
			if has {
				if err := r.msg(sb, val, fd.Message()); err != nil {
					return fmt.Errorf(".%s%v", fd.Name(), err)
				}
			} else {
				sub, err := asMessage(val, fd.Message())
				if err != nil {
					return fmt.Errorf(".%s (unset): %v", fd.Name(), err)
				}
				empty := true
				sub.Message().ProtoReflect().Range(func(protoreflect.FieldDescriptor, protoreflect.Value) bool { empty = false; return false })
				if !empty {
					return fmt.Errorf(".%s is unset but reads as non-empty %v", fd.Name(), sub)
				}
				sb.WriteByte('-')
			}
		default:
			c, err := realCanon(fd, val)
			if err != nil {
				return fmt.Errorf(".%s: %v", fd.Name(), err)
			}
			if !hasPresence(fd) && has == isZeroCanon(c) {
				return fmt.Errorf(".%s: has=%v but value %s", fd.Name(), has, c)
			}
			if !has && c != defaultCanon(fd) {
				return fmt.Errorf(".%s is unset but reads %s, default is %s", fd.Name(), c, defaultCanon(fd))
			}
			sb.WriteString(c)
		}
		sb.WriteByte(';')
	}
	sb.WriteByte(')')
	return nil
}

// readHandle renders the content visible through a real handle.
func (r *reader) readHandle(h *handle) (string, error) {
	var sb strings.Builder
	var err error
	switch h.kind {
	case 'm':
		err = r.msg(&sb, h.real.(starlark.Value), h.msg.md)
	case 'l':
		rf, ok := h.real.(*sproto.RepeatedField)
		if !ok {
			return "", fmt.Errorf("list handle is a %T", h.real)
		}
		_, err = r.list(&sb, h.fd, rf)
	case 'p':
		mf, ok := h.real.(*sproto.MapField)
		if !ok {
			return "", fmt.Errorf("map handle is a %T", h.real)
		}
		_, err = r.mapf(&sb, h.fd, mf)
	}
	return sb.String(), err
}

// ---------------------------------------------------------------- second opinion: protoreflect

func prScalar(fd protoreflect.FieldDescriptor, v protoreflect.Value) string {
	k := fd.Kind()
	if _, _, ok := intRange(k); ok {
		switch k {
		case protoreflect.Uint32Kind, protoreflect.Fixed32Kind, protoreflect.Uint64Kind, protoreflect.Fixed64Kind:
			return canonInt(new(big.Int).SetUint64(v.Uint()))
		}
		return canonInt(big.NewInt(v.Int()))
	}
	switch k {
	case protoreflect.BoolKind:
		return canonBool(v.Bool())
	case protoreflect.FloatKind, protoreflect.DoubleKind:
		return canonFloat(v.Float())
	case protoreflect.StringKind:
		return canonStr(v.String())
	case protoreflect.BytesKind:
		return canonBytes(string(v.Bytes()))
	case protoreflect.EnumKind:
		return canonEnum(string(fd.Enum().FullName()), int32(v.Enum()))
	}
	panic("prScalar " + k.String())
}

func prElem(sb *strings.Builder, fd protoreflect.FieldDescriptor, v protoreflect.Value) {
	if isMsgKind(fd) {
		prMsg(sb, v.Message())
	} else {
		sb.WriteString(prScalar(fd, v))
	}
}

// prMsg renders a protoreflect.Message in the model's format (Go panics on ill-typed storage
// are caught by the caller).
func prMsg(sb *strings.Builder, m protoreflect.Message) {
	md := m.Descriptor()
	sb.WriteString(string(md.FullName()))
	sb.WriteByte('(')
	for _, fd := range fieldsOf(md) {
		if fd.IsExtension() {
			fd = dynamicpb.NewExtensionType(fd).TypeDescriptor()
		}
		has := m.Has(fd)
		sb.WriteString(string(fd.Name()))
		sb.WriteByte('=')
		if has {
			sb.WriteByte('!')
		}
		v := m.Get(fd)
		switch {
		case fd.IsList():
			sb.WriteByte('[')
			l := v.List()
			for i := 0; i < l.Len(); i++ {
				if i > 0 {
					sb.WriteByte(',')
				}
				prElem(sb, fd, l.Get(i))
			}
			sb.WriteByte(']')
		case fd.IsMap():
			type kv struct{ k, v string }
			var out []kv
			v.Map().Range(func(k protoreflect.MapKey, x protoreflect.Value) bool {
				var vb strings.Builder
				prElem(&vb, fd.MapValue(), x)
				out = append(out, kv{prScalar(fd.MapKey(), k.Value()), vb.String()})
				return true
			})
			sort.Slice(out, func(i, j int) bool { return lessKey(out[i].k, out[j].k) })
			sb.WriteByte('{')
			for i, e := range out {
				if i > 0 {
					sb.WriteByte(',')
				}
				sb.WriteString(e.k + "=>" + e.v)
			}
			sb.WriteByte('}')
		case isMsgKind(fd):
			if has {
				prMsg(sb, v.Message())
			} else {
				sb.WriteByte('-')
			}
		default:
			sb.WriteString(prScalar(fd, v))
		}
		sb.WriteByte(';')
	}
	sb.WriteByte(')')
}
