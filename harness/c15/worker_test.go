package c15

// A child process prints the cyclic values.  Unbounded recursion in the printer is a fatal Go stack
// overflow, which cannot be recovered in-process; in the child it becomes an ordinary verdict
// ("the printing process died"), and a hang becomes a timeout verdict.

import (
	"bufio"
	"encoding/json"
	"fmt"
	"io"
	"os"
	"os/exec"
	"runtime/debug"
	"strings"
	"sync"
	"time"

	"go.starlark.net/starlark"
)

type printOut struct {
	How string `json:"how"`
	Len int    `json:"len"`
	Err string `json:"err,omitempty"`
}

type workerReply struct {
	Out []printOut `json:"out"`
}

// printAll prints v in every way a program or host can.
func printAll(v starlark.Value) workerReply {
	var r workerReply
	s := v.String()
	r.Out = append(r.Out, printOut{How: "Value.String()", Len: len(s)})
	for _, h := range []struct{ how, fn string }{{"repr(v)", "do_repr"}, {"str(v)", "do_str"}, {`"%s" % (v,)`, "fmt_s"}, {`"%r" % (v,)`, "fmt_r"}} {
		got, err := callStr(h.fn, v)
		o := printOut{How: h.how, Len: len(got)}
		if err != nil {
			o.Err = err.Error()
		} else if got != s {
			o.Err = fmt.Sprintf("differs from Value.String(): %q vs %q", trunc(got), trunc(s))
		}
		r.Out = append(r.Out, o)
	}
	return r
}

func workerMain() {
	debug.SetMaxStack(64 << 20) // a runaway recursion dies quickly instead of eating 1 GB first
	in := bufio.NewReaderSize(os.Stdin, 1<<20)
	out := bufio.NewWriter(os.Stdout)
	for {
		line, err := in.ReadBytes('\n')
		if len(line) > 0 {
			var c CycCase
			if e := json.Unmarshal(line, &c); e != nil {
				fmt.Fprintf(out, "{\"out\":[{\"how\":\"decode\",\"err\":%q}]}\n", e.Error())
			} else {
				b, _ := json.Marshal(printAll(c.normalise().build()))
				out.Write(b)
				out.WriteByte('\n')
			}
			out.Flush()
		}
		if err != nil {
			return
		}
	}
}

type worker struct {
	mu     sync.Mutex
	cmd    *exec.Cmd
	stdin  io.WriteCloser
	stdout *bufio.Reader
	stderr *tailBuf
}

type tailBuf struct {
	mu sync.Mutex
	b  []byte
}

func (t *tailBuf) Write(p []byte) (int, error) {
	t.mu.Lock()
	defer t.mu.Unlock()
	if len(t.b) < 600 { // the head of a Go crash report says what happened
		t.b = append(t.b, p[:min(len(p), 600-len(t.b))]...)
	}
	return len(p), nil
}

func (t *tailBuf) String() string {
	t.mu.Lock()
	defer t.mu.Unlock()
	return strings.ReplaceAll(string(t.b), "\n", " | ")
}

var theWorker = &worker{}

const workerTimeout = 600 * time.Second // generous: the machine may be heavily loaded; a real hang still ends here

func (w *worker) start() error {
	cmd := exec.Command(os.Args[0], "-test.run", "^$")
	cmd.Env = append(os.Environ(), "VERIF_C15_WORKER=1", "VERIF_STATS_OUT=")
	stdin, err := cmd.StdinPipe()
	if err != nil {
		return err
	}
	stdout, err := cmd.StdoutPipe()
	if err != nil {
		return err
	}
	w.stderr = &tailBuf{}
	cmd.Stderr = w.stderr
	if err := cmd.Start(); err != nil {
		return err
	}
	w.cmd, w.stdin, w.stdout = cmd, stdin, bufio.NewReaderSize(stdout, 1<<20)
	return nil
}

func (w *worker) stop() {
	if w.cmd != nil {
		w.stdin.Close()
		w.cmd.Process.Kill()
		w.cmd.Wait()
		w.cmd = nil
	}
}

// run prints the graph in the child.  Infrastructure trouble (cannot start the child) panics, which vk
// reports as a failure of the case — it must not pass silently.
func (w *worker) run(c CycCase) (workerReply, error) {
	w.mu.Lock()
	defer w.mu.Unlock()
	if w.cmd == nil {
		if err := w.start(); err != nil {
			panic("cannot start the printing worker: " + err.Error())
		}
	}
	b, _ := json.Marshal(c)
	if _, err := w.stdin.Write(append(b, '\n')); err != nil {
		msg := w.stderr.String()
		w.stop()
		return workerReply{}, fmt.Errorf("the printing process died before reading the case: %v %s", err, msg)
	}
	type result struct {
		line []byte
		err  error
	}
	ch := make(chan result, 1)
	rd := w.stdout
	go func() {
		line, err := rd.ReadBytes('\n')
		ch <- result{line, err}
	}()
	select {
	case r := <-ch:
		if r.err != nil {
			w.cmd.Wait()
			msg := w.stderr.String()
			w.stop()
			return workerReply{}, fmt.Errorf("printing a cyclic value killed the process (no finite result): %s", msg)
		}
		var reply workerReply
		if err := json.Unmarshal(r.line, &reply); err != nil {
			w.stop()
			return workerReply{}, fmt.Errorf("bad reply from the printing process: %v", err)
		}
		return reply, nil
	case <-time.After(workerTimeout):
		w.stop()
		return workerReply{}, fmt.Errorf("printing a cyclic value did not terminate within %v", workerTimeout)
	}
}
