package c15

// Value descriptions for the round-trip check, their construction through the Go API, and the
// harness-side comparison of a read-back value with the description (never starlark.Equal: equality is
// the subject of another property).

import (
	"fmt"
	"math"
	"math/big"
	"strconv"
	"strings"
	"unicode/utf8"

	"go.starlark.net/starlark"
)

// V describes a value of the property's domain.
//
//	none | bool N=0|1 | int I=decimal | float I=hex IEEE bits | str / bytes S=strconv.Quote(content)
//	list / tuple E=elements | dict E=k0,v0,k1,v1,... (keys pairwise unequal, hashable)
//	ID != 0 on a list/tuple/dict: later {K:"ref", N:ID} denotes the very same object (shared substructure)
type V struct {
	K  string `json:"k"`
	I  string `json:"i,omitempty"`
	S  string `json:"s,omitempty"`
	N  int    `json:"n,omitempty"`
	ID int    `json:"id,omitempty"`
	E  []V    `json:"e,omitempty"`
}

func vNone() V          { return V{K: "none"} }
func vBool(b bool) V    { return V{K: "bool", N: b2i(b)} }
func vInt(x *big.Int) V { return V{K: "int", I: x.String()} }
func vFloat(f float64) V {
	return V{K: "float", I: fmt.Sprintf("0x%016x", math.Float64bits(f))}
}
func vStr(s string) V   { return V{K: "str", S: strconv.Quote(s)} }
func vBytes(s string) V { return V{K: "bytes", S: strconv.Quote(s)} }

func b2i(b bool) int {
	if b {
		return 1
	}
	return 0
}

func (v V) bigInt() *big.Int {
	x, ok := new(big.Int).SetString(v.I, 10)
	if !ok {
		panic("malformed case: int " + v.I)
	}
	return x
}

func (v V) float() float64 {
	b, err := strconv.ParseUint(strings.TrimPrefix(v.I, "0x"), 16, 64)
	if err != nil {
		panic("malformed case: float " + v.I)
	}
	return math.Float64frombits(b)
}

func (v V) text() string {
	s, err := strconv.Unquote(v.S)
	if err != nil {
		panic("malformed case: string " + v.S)
	}
	return s
}

// env resolves shared nodes: description by ID, and the object built for it.
type env struct {
	desc  map[int]*V
	built map[int]starlark.Value
}

func newEnv() *env { return &env{map[int]*V{}, map[int]starlark.Value{}} }

func (e *env) build(v *V) starlark.Value {
	var out starlark.Value
	switch v.K {
	case "none":
		return starlark.None
	case "bool":
		return starlark.Bool(v.N != 0)
	case "int":
		return starlark.MakeBigInt(v.bigInt())
	case "float":
		return starlark.Float(v.float())
	case "str":
		return starlark.String(v.text())
	case "bytes":
		return starlark.Bytes(v.text())
	case "ref":
		b, ok := e.built[v.N]
		if !ok {
			panic("malformed case: ref to unknown id")
		}
		return b
	case "tuple":
		t := make(starlark.Tuple, len(v.E))
		for i := range v.E {
			t[i] = e.build(&v.E[i])
		}
		out = t
	case "list":
		t := make([]starlark.Value, len(v.E))
		for i := range v.E {
			t[i] = e.build(&v.E[i])
		}
		out = starlark.NewList(t)
	case "dict":
		d := starlark.NewDict(len(v.E) / 2)
		for i := 0; i+1 < len(v.E); i += 2 {
			k := e.build(&v.E[i])
			if _, found, err := d.Get(k); err != nil || found {
				panic("malformed case: dict key unhashable or repeated")
			}
			if err := d.SetKey(k, e.build(&v.E[i+1])); err != nil {
				panic("malformed case: dict key: " + err.Error())
			}
		}
		out = d
	default:
		panic("malformed case: kind " + v.K)
	}
	if v.ID != 0 {
		e.desc[v.ID] = v
		e.built[v.ID] = out
	}
	return out
}

// match reports how the read-back value got differs from the description (nil: same type and same
// content, recursively; floats by bit pattern).
func (e *env) match(v *V, got starlark.Value, path string) error {
	bad := func(format string, args ...any) error {
		return fmt.Errorf("at %s: %s", path, fmt.Sprintf(format, args...))
	}
	wantType := map[string]string{"none": "NoneType", "bool": "bool", "int": "int", "float": "float", "str": "string",
		"bytes": "bytes", "list": "list", "tuple": "tuple", "dict": "dict"}
	if v.K == "ref" {
		d, ok := e.desc[v.N]
		if !ok {
			panic("malformed case: ref to unknown id")
		}
		return e.match(d, got, path)
	}
	if got.Type() != wantType[v.K] {
		return bad("read back a %s, printed a %s", got.Type(), wantType[v.K])
	}
	switch v.K {
	case "none":
		if _, ok := got.(starlark.NoneType); !ok {
			return bad("not None")
		}
	case "bool":
		if b, ok := got.(starlark.Bool); !ok || bool(b) != (v.N != 0) {
			return bad("read back %v, printed %v", got, v.N != 0)
		}
	case "int":
		i, ok := got.(starlark.Int)
		if !ok || i.BigInt().Cmp(v.bigInt()) != 0 {
			return bad("read back %v, printed %s", got, v.I)
		}
	case "float":
		f, ok := got.(starlark.Float)
		if !ok || math.Float64bits(float64(f)) != math.Float64bits(v.float()) {
			return bad("read back float bits %#016x, printed %s (%v)", math.Float64bits(float64(f)), v.I, v.float())
		}
	case "str":
		s, ok := got.(starlark.String)
		if !ok || string(s) != v.text() {
			return bad("read back %q, printed %q", string(s), v.text())
		}
	case "bytes":
		s, ok := got.(starlark.Bytes)
		if !ok || string(s) != v.text() {
			return bad("read back bytes %q, printed %q", string(s), v.text())
		}
	case "list":
		l, ok := got.(*starlark.List)
		if !ok || l.Len() != len(v.E) {
			return bad("read back a list of %d elements, printed %d", l.Len(), len(v.E))
		}
		for i := range v.E {
			if err := e.match(&v.E[i], l.Index(i), fmt.Sprintf("%s[%d]", path, i)); err != nil {
				return err
			}
		}
	case "tuple":
		t, ok := got.(starlark.Tuple)
		if !ok || len(t) != len(v.E) {
			return bad("read back a tuple of %d elements, printed %d", len(t), len(v.E))
		}
		for i := range v.E {
			if err := e.match(&v.E[i], t[i], fmt.Sprintf("%s[%d]", path, i)); err != nil {
				return err
			}
		}
	case "dict":
		d, ok := got.(*starlark.Dict)
		if !ok || d.Len() != len(v.E)/2 {
			return bad("read back a dict of %d entries, printed %d", d.Len(), len(v.E)/2)
		}
		items := d.Items()
		used := make([]bool, len(items))
		for i := 0; i+1 < len(v.E); i += 2 {
			found := false
			for j, it := range items {
				if used[j] || e.match(&v.E[i], it[0], path) != nil {
					continue
				}
				used[j], found = true, true
				if err := e.match(&v.E[i+1], it[1], fmt.Sprintf("%s[key #%d]", path, i/2)); err != nil {
					return err
				}
				break
			}
			if !found {
				return bad("key #%d of the printed dict is missing from the dict read back", i/2)
			}
		}
	}
	return nil
}

// ---------------------------------------------------------------- static facts about a description

func (v V) depth() int {
	m := 0
	for _, e := range v.E {
		if d := e.depth(); d > m {
			m = d
		}
	}
	switch v.K {
	case "list", "tuple", "dict":
		return m + 1
	}
	return 0
}

func (v V) walk(f func(V)) {
	f(v)
	for _, e := range v.E {
		e.walk(f)
	}
}

// invalidText: a text string that is not valid UTF-8 occurs (outside the property's domain).
func (v V) invalidText() bool {
	bad := false
	v.walk(func(x V) {
		if x.K == "str" && !utf8.ValidString(x.text()) {
			bad = true
		}
	})
	return bad
}

func (v V) nonFinite() bool {
	bad := false
	v.walk(func(x V) {
		if x.K == "float" {
			if f := x.float(); f != f || math.IsInf(f, 0) {
				bad = true
			}
		}
	})
	return bad
}

// eqClass is a canonical string of the Starlark ==-class of a hashable description (numbers by value
// across int/float, so that the generator can keep dict keys pairwise unequal).
func (v V) eqClass(e map[int]V) string {
	switch v.K {
	case "int":
		return "#" + new(big.Rat).SetInt(v.bigInt()).RatString()
	case "float":
		return "#" + new(big.Rat).SetFloat64(v.float()).RatString()
	case "tuple":
		var sb strings.Builder
		sb.WriteString("T(")
		for _, x := range v.E {
			sb.WriteString(x.eqClass(e) + ",")
		}
		return sb.String() + ")"
	case "ref":
		return e[v.N].eqClass(e)
	}
	return v.K + strconv.Itoa(v.N) + v.S
}
