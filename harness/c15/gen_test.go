package c15

import (
	"fmt"
	"math"
	"math/big"
	"strconv"
	"strings"
	"unicode"
	"unicode/utf8"

	"pgregory.net/rapid"
)

// ---------------------------------------------------------------- code point classes

type runeClass struct {
	name string
	gen  *rapid.Generator[rune]
}

func rr(lo, hi rune) *rapid.Generator[rune] { return rapid.Int32Range(lo, hi) }

// The classes Quote and the scanner could conceivably treat differently, weighted equally.
var runeClasses = []runeClass{
	{"ascii-control", rr(0x00, 0x1f)},
	{"quote-backslash", rapid.SampledFrom([]rune{'"', '\'', '\\'})},
	{"del", rapid.Just(rune(0x7f))},
	{"ascii-printable", rr(0x20, 0x7e)},
	{"escape-letters", rapid.SampledFrom([]rune("abfnrtvxuU0123456789 \n\r"))}, // after a backslash these would form escapes
	{"latin1-c1-control", rr(0x80, 0x9f)},
	{"latin1", rr(0xa0, 0xff)},
	{"line-separators", rapid.SampledFrom([]rune{0x2028, 0x2029, 0x85, 0x0b, 0x0c})},
	{"combining", rapid.OneOf(rr(0x300, 0x36f), rr(0x1ab0, 0x1aff), rr(0x20d0, 0x20ff))},
	{"format-invisible", rapid.SampledFrom([]rune{0xad, 0x200b, 0x200d, 0x200e, 0x202e, 0x2060, 0xfeff, 0xfff9, 0x1d173, 0xe0001})},
	{"private-use", rapid.OneOf(rr(0xe000, 0xf8ff), rr(0xf0000, 0xffffd), rr(0x100000, 0x10fffd))},
	{"unassigned-nonchar", rapid.SampledFrom([]rune{0x378, 0x530, 0xfdd0, 0xfffe, 0xffff, 0x1fffe, 0x2fffe, 0x3ffff, 0x10ffff, 0x10fffe, 0xe01f0, 0x30000 + 0x1400})},
	{"bmp-letters", rapid.OneOf(rr(0x100, 0x24f), rr(0x370, 0x3ff), rr(0x4e00, 0x9fff), rr(0xac00, 0xd7a3))},
	{"before-after-surrogates", rapid.SampledFrom([]rune{0xd7ff, 0xe000, 0xffff, 0x10000})},
	{"astral", rapid.OneOf(rr(0x10000, 0x1ffff), rr(0x1f300, 0x1faff), rr(0x20000, 0x2ffff), rr(0xe0100, 0xe01ef))},
	{"replacement-char", rapid.Just(rune(0xfffd))},
	{"any", rapid.OneOf(rr(0, 0xd7ff), rr(0xe000, 0x10ffff))},
}

func genRune() *rapid.Generator[rune] {
	return rapid.Custom(func(t *rapid.T) rune {
		c := rapid.IntRange(0, len(runeClasses)-1).Draw(t, "class")
		return runeClasses[c].gen.Draw(t, "rune")
	})
}

// stringClasses names the classes of the runes (bytes) in s, for the histogram.
func stringClasses(s string, isBytes bool) []string {
	seen := map[string]bool{}
	add := func(n string) { seen[n] = true }
	for i := 0; i < len(s); {
		r, w := utf8.DecodeRuneInString(s[i:])
		switch {
		case r == utf8.RuneError && w == 1:
			add("invalid-utf8-byte")
		case r < 0x20:
			add("ascii-control")
		case r == '"' || r == '\'' || r == '\\':
			add("quote-backslash")
		case r == 0x7f:
			add("del")
		case r < 0x7f:
			add("ascii-printable")
		case r < 0xa0:
			add("latin1-c1-control")
		case r <= 0xff:
			add("latin1")
		case r == 0x2028 || r == 0x2029:
			add("line-separators")
		case r == 0xfffd:
			add("replacement-char")
		case unicode.Is(unicode.Mn, r) || unicode.Is(unicode.Me, r):
			add("combining")
		case unicode.Is(unicode.Co, r):
			add("private-use")
		case unicode.Is(unicode.Cf, r):
			add("format-invisible")
		case r >= 0x10000 && !unicode.IsPrint(r):
			add("astral-unprintable")
		case r >= 0x10000:
			add("astral")
		case !unicode.IsPrint(r):
			add("bmp-unprintable-unassigned")
		default:
			add("bmp-printable")
		}
		i += w
	}
	if len(s) == 0 {
		add("empty")
	}
	var out []string
	for k := range seen {
		out = append(out, k)
	}
	return out
}

func genTextString() *rapid.Generator[string] {
	return rapid.Custom(func(t *rapid.T) string {
		switch rapid.IntRange(0, 19).Draw(t, "textkind") {
		case 0:
			// rarely: not valid UTF-8 (outside the statement; counted as discarded). Kept well below 1 %.
			if rapid.IntRange(0, 29).Draw(t, "rare") == 0 {
				return string(rapid.SliceOfN(rapid.Byte(), 1, 6).Draw(t, "rawbytes"))
			}
			return ""
		case 1, 2:
			// text that looks like escapes: a backslash followed by escape letters and digits
			var sb strings.Builder
			for _, p := range rapid.SliceOfN(rapid.SampledFrom([]string{`\`, `\n`, `\x41`, "\\u1234", `\U0001F600`, `\0`, `\101`, "\\\n", "\r\n", "\r", "\n", `"`, `'`, `"""`, "'''", `\"`, "a", "0", "b", "r", "rb", `b"`, " ", "#", "$", "%", "{", "}"}), 0, 8).Draw(t, "parts") {
				sb.WriteString(p)
			}
			return sb.String()
		default:
			n := rapid.SampledFrom([]int{0, 1, 1, 2, 3, 5, 8, 16, 40}).Draw(t, "nrunes")
			return string(rapid.SliceOfN(genRune(), n, n).Draw(t, "runes"))
		}
	})
}

func genByteString() *rapid.Generator[string] {
	return rapid.Custom(func(t *rapid.T) string {
		switch rapid.IntRange(0, 5).Draw(t, "byteskind") {
		case 0, 1:
			n := rapid.SampledFrom([]int{0, 1, 2, 3, 4, 8, 20, 64}).Draw(t, "nbytes")
			return string(rapid.SliceOfN(rapid.Byte(), n, n).Draw(t, "bytes"))
		case 2:
			// valid UTF-8 of the interesting classes: Quote decodes runes in byte strings too
			return genTextString().Draw(t, "utf8")
		case 3:
			// valid runes interleaved with stray bytes, truncated and overlong sequences, surrogate encodings
			var sb strings.Builder
			for _, p := range rapid.SliceOfN(rapid.OneOf(
				rapid.SampledFrom([]string{"\x80", "\xbf", "\xc0\x80", "\xc2", "\xe2\x80", "\xed\xa0\x80", "\xed\xbf\xbf", "\xf4\x90\x80\x80", "\xf0\x9f\x98", "\xff", "\xfe", "\xef\xbf\xbd", "\xe2\x80\xa8", "\xc2\x85", "\x7f", "\x00", "\\", "\""}),
				rapid.Custom(func(t *rapid.T) string { return string(genRune().Draw(t, "r")) }),
			), 0, 10).Draw(t, "parts") {
				sb.WriteString(p)
			}
			return sb.String()
		default:
			// all 256 values in some rotation
			off := rapid.IntRange(0, 255).Draw(t, "off")
			b := make([]byte, 256)
			for i := range b {
				b[i] = byte(i + off)
			}
			return string(b[:rapid.SampledFrom([]int{16, 64, 256}).Draw(t, "take")])
		}
	})
}

// ---------------------------------------------------------------- numbers

// sigDigits is the number of significant decimal digits of the shortest representation that round-trips.
func sigDigits(f float64) int {
	s := strconv.FormatFloat(math.Abs(f), 'e', -1, 64)
	mant := s[:strings.IndexByte(s, 'e')]
	return len(strings.ReplaceAll(mant, ".", ""))
}

func floatClass(f float64) string {
	a := math.Abs(f)
	switch {
	case a == 0 && math.Signbit(f):
		return "negative-zero"
	case a == 0:
		return "zero"
	case a < 0x1p-1022:
		return "subnormal"
	case a == math.Trunc(a) && a < 1e15:
		return "integral<1e15"
	case a == math.Trunc(a) && a < 1e21:
		return "integral-1e15..1e21"
	case a == math.Trunc(a):
		return "integral>=1e21"
	case a < 1e-4:
		return "tiny<1e-4"
	}
	return "fractional"
}

func genFloat() *rapid.Generator[float64] {
	return rapid.Custom(func(t *rapid.T) float64 {
		var f float64
		switch rapid.IntRange(0, 9).Draw(t, "floatkind") {
		case 0, 1, 2:
			f = math.Float64frombits(rapid.Uint64().Draw(t, "bits"))
		case 3:
			f = rapid.SampledFrom([]float64{0, math.Copysign(0, -1), 5e-324, 0x1p-1022, 0x1p-1022 - 5e-324, math.MaxFloat64, math.SmallestNonzeroFloat64 * 3,
				1, 0.1, 0.5, 1.5, 100, 1e15, 1e16, 1e20, 1e21, 1e22, 1e23, 123456789, 0.0001, 0.00001, 1e-5, 1e-7, 0x1p53, 0x1p63, 0x1p64}).Draw(t, "special")
		case 4:
			// subnormals
			f = math.Float64frombits(rapid.Uint64Range(1, 1<<52-1).Draw(t, "sub"))
		case 5:
			// powers of ten and their neighbours
			p := rapid.IntRange(-323, 308).Draw(t, "p10")
			f, _ = strconv.ParseFloat("1e"+strconv.Itoa(p), 64)
			switch rapid.IntRange(0, 2).Draw(t, "nb") {
			case 1:
				f = math.Nextafter(f, math.Inf(1))
			case 2:
				f = math.Nextafter(f, 0)
			}
		case 6:
			// 17 significant digits
			m := rapid.Uint64Range(10000000000000000, 99999999999999999).Draw(t, "mant17")
			e := rapid.IntRange(-330, 292).Draw(t, "exp10")
			f, _ = strconv.ParseFloat(strconv.FormatUint(m, 10)+"e"+strconv.Itoa(e), 64)
		case 7:
			// few digits, any exponent: where %g switches between positional and exponent notation
			m := rapid.IntRange(1, 99999).Draw(t, "mant")
			e := rapid.IntRange(-30, 30).Draw(t, "exp")
			f, _ = strconv.ParseFloat(strconv.Itoa(m)+"e"+strconv.Itoa(e), 64)
		case 8:
			// integral values: the forced ".0"
			f = float64(rapid.Int64Range(-1<<53, 1<<53).Draw(t, "integral"))
			if rapid.Bool().Draw(t, "big") {
				f *= float64(int64(1) << rapid.IntRange(0, 40).Draw(t, "shift"))
			}
		default:
			// powers of two and neighbours
			f = math.Ldexp(1, rapid.IntRange(-1074, 1023).Draw(t, "p2"))
			switch rapid.IntRange(0, 2).Draw(t, "nb") {
			case 1:
				f = math.Nextafter(f, math.Inf(1))
			case 2:
				f = math.Nextafter(f, 0)
			}
		}
		if f != f || math.IsInf(f, 0) {
			// keep a trace of them (< 1 %): they are outside the statement and counted as discarded
			if rapid.IntRange(0, 40).Draw(t, "keep-nonfinite") == 0 {
				return f
			}
			return math.MaxFloat64
		}
		if rapid.IntRange(0, 3).Draw(t, "neg") == 0 {
			f = -f
		}
		return f
	})
}

func genInt() *rapid.Generator[*big.Int] {
	return rapid.Custom(func(t *rapid.T) *big.Int {
		var x *big.Int
		switch rapid.IntRange(0, 5).Draw(t, "intkind") {
		case 0:
			x = big.NewInt(int64(rapid.IntRange(-10, 1000).Draw(t, "small")))
		case 1:
			x = big.NewInt(rapid.Int64().Draw(t, "i64"))
		case 2:
			k := rapid.SampledFrom([]uint{31, 32, 53, 63, 64, 127, 128, 512, 1024, 4096}).Draw(t, "pow2")
			x = new(big.Int).Lsh(big.NewInt(1), k)
			x.Add(x, big.NewInt(int64(rapid.IntRange(-2, 2).Draw(t, "off"))))
		case 3:
			k := rapid.IntRange(0, 400).Draw(t, "pow10")
			x = new(big.Int).Exp(big.NewInt(10), big.NewInt(int64(k)), nil)
			x.Add(x, big.NewInt(int64(rapid.IntRange(-1, 1).Draw(t, "off"))))
		default:
			nbytes := rapid.SampledFrom([]int{1, 4, 8, 9, 16, 33, 100, 512, 2048}).Draw(t, "nbytes")
			x = new(big.Int).SetBytes(rapid.SliceOfN(rapid.Byte(), nbytes, nbytes).Draw(t, "mag"))
		}
		if rapid.IntRange(0, 2).Draw(t, "neg") == 0 {
			x = new(big.Int).Neg(x)
		}
		return x
	})
}

func boundaryNumbers() []V {
	var out []V
	for _, f := range []float64{0, math.Copysign(0, -1), 5e-324, -5e-324, 0x1p-1022, 0x1p-1022 - 5e-324, math.MaxFloat64, -math.MaxFloat64,
		1, -1, 0.1, 0.2, 0.3, 0.1 + 0.2, 1.0 / 3, 2.0 / 3, 100, 1e5, 1e6, 1e15, 1e16, 1e17, 1e20, 1e21, 1e22, 1e23, 1e-4, 1e-5, 1e-6, 1e-7, 123456.7, 1234567.8,
		0x1p53, 0x1p53 + 2, 0x1p53 - 1, 0x1p63, 0x1p64, 9007199254740993, 5e-324 * 3, 2.2250738585072011e-308, 2.2250738585072014e-308, 1.7976931348623157e308,
		4.35, 0.000001, 123456789012345680, 1e100, 1.5e300, 9.999999999999999e22, 8.41e21, 5e-324 * 1234567} {
		out = append(out, vFloat(f))
	}
	for p := -323; p <= 308; p++ {
		f, _ := strconv.ParseFloat("1e"+strconv.Itoa(p), 64)
		out = append(out, vFloat(f), vFloat(math.Nextafter(f, math.Inf(1))), vFloat(math.Nextafter(f, 0)), vFloat(-f))
	}
	for e := -1074; e <= 1023; e += 1 {
		f := math.Ldexp(1, e)
		out = append(out, vFloat(f), vFloat(math.Nextafter(f, 0)))
	}
	for _, k := range []uint{0, 1, 7, 8, 15, 16, 31, 32, 33, 52, 53, 54, 62, 63, 64, 65, 127, 128, 255, 256, 1023, 1024, 4095, 4096} {
		for d := int64(-1); d <= 1; d++ {
			x := new(big.Int).Lsh(big.NewInt(1), k)
			x.Add(x, big.NewInt(d))
			out = append(out, vInt(x), vInt(new(big.Int).Neg(x)))
		}
	}
	for k := 0; k <= 60; k++ {
		x := new(big.Int).Exp(big.NewInt(10), big.NewInt(int64(k)), nil)
		out = append(out, vInt(x), vInt(new(big.Int).Sub(x, big.NewInt(1))), vInt(new(big.Int).Neg(x)))
	}
	return out
}

// ---------------------------------------------------------------- containers

type valueGen struct {
	t      *rapid.T
	nextID int
	shared []V          // containers that may be referenced again
	byID   map[int]V    // for eqClass of refs
	hash   map[int]bool // shared node is hashable
	n      int          // draw counter for labels
}

func (g *valueGen) label(s string) string { g.n++; return fmt.Sprintf("%s%d", s, g.n) }

func (g *valueGen) leaf() V {
	t := g.t
	switch rapid.IntRange(0, 9).Draw(t, g.label("leaf")) {
	case 0:
		return vNone()
	case 1:
		return vBool(rapid.Bool().Draw(t, g.label("b")))
	case 2, 3:
		return vInt(genInt().Draw(t, g.label("i")))
	case 4, 5, 6:
		return vFloat(genFloat().Draw(t, g.label("f")))
	case 7, 8:
		return vStr(genTextString().Draw(t, g.label("s")))
	default:
		return vBytes(genByteString().Draw(t, g.label("y")))
	}
}

// value draws a value whose containers nest at most depth levels.  hashable: only None, bool, numbers,
// strings, bytes and tuples of those (for dict keys).
func (g *valueGen) value(depth int, hashable bool) V {
	t := g.t
	if g.byID == nil {
		g.byID, g.hash = map[int]V{}, map[int]bool{}
	}
	if depth <= 0 {
		return g.leaf()
	}
	kind := rapid.IntRange(0, 11).Draw(t, g.label("shape"))
	// re-use an earlier container: shared substructure
	if kind == 0 && len(g.shared) > 0 {
		var cands []V
		for _, s := range g.shared {
			if s.depth() <= depth && (!hashable || g.hash[s.ID]) {
				cands = append(cands, s)
			}
		}
		if len(cands) > 0 {
			s := cands[rapid.IntRange(0, len(cands)-1).Draw(t, g.label("ref"))]
			return V{K: "ref", N: s.ID}
		}
	}
	var v V
	n := rapid.IntRange(0, 3).Draw(t, g.label("n"))
	if depth >= 5 {
		n = min(n, 2) // keep the printed size of deep values small
	}
	switch {
	case kind <= 2:
		return g.leaf()
	case kind <= 5 || hashable:
		v = V{K: "tuple"}
		for i := 0; i < n; i++ {
			v.E = append(v.E, g.value(depth-1, hashable))
		}
	case kind <= 8:
		v = V{K: "list"}
		for i := 0; i < n; i++ {
			v.E = append(v.E, g.value(depth-1, false))
		}
	default:
		v = V{K: "dict"}
		seen := map[string]bool{}
		for i := 0; i < n; i++ {
			mark := len(g.shared)
			k := g.value(min(depth-1, 2), true)
			if k.nonFinite() || seen[k.eqClass(g.byID)] {
				// dropped (keys must be pairwise unequal; eqClass needs finite numbers): forget the
				// shared nodes created inside it, nothing may refer to them
				g.shared = g.shared[:mark]
				continue
			}
			c := k.eqClass(g.byID)
			seen[c] = true
			v.E = append(v.E, k, g.value(depth-1, false))
		}
	}
	// the first element of a deep value carries the depth, so that the requested depth is actually reached
	if len(v.E) == 0 && depth > 1 && v.K != "dict" && rapid.Bool().Draw(t, g.label("deepen")) {
		v.E = append(v.E, g.value(depth-1, hashable))
	}
	if rapid.IntRange(0, 2).Draw(t, g.label("share")) == 0 {
		g.nextID++
		v.ID = g.nextID
		g.shared = append(g.shared, v)
		g.byID[v.ID] = v
		g.hash[v.ID] = hashable
	}
	return v
}

// ---------------------------------------------------------------- cyclic graphs

func genGraph(t *rapid.T) CycCase {
	n := rapid.IntRange(1, 6).Draw(t, "nodes")
	c := CycCase{StrKeys: rapid.Bool().Draw(t, "strkeys")}
	g := &valueGen{t: t}
	for i := 0; i < n; i++ {
		nd := CycNode{K: rapid.SampledFrom([]string{"list", "list", "dict", "dict", "tuple"}).Draw(t, "kind")}
		for j, m := 0, rapid.IntRange(0, 3).Draw(t, "edges"); j < m; j++ {
			if rapid.IntRange(0, 3).Draw(t, "leaf") == 0 {
				l := g.leaf()
				nd.E = append(nd.E, CycRef{N: -1, L: &l})
			} else {
				nd.E = append(nd.E, CycRef{N: rapid.IntRange(0, n-1).Draw(t, "to")})
			}
		}
		c.Nodes = append(c.Nodes, nd)
	}
	c.Root = rapid.IntRange(0, n-1).Draw(t, "root")
	return c
}
