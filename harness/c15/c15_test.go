// C15: printed values read back as the same values.
//
// Sub-checks:
//
//	quote      syntax.Quote(s, b) parses to a single STRING/BYTES literal denoting s again (every valid UTF-8 text
//	           string, every byte string); Quote(parse(Quote(s))) == Quote(s); evaluation of the literal gives s;
//	           str(s) == s for text strings.
//	roundtrip  v' = Eval(repr(v)) succeeds, has the type of v and the content of v, recursively (floats by bits), for
//	           None/bool/int/finite float/string/bytes/list/tuple/dict values up to depth 6 with shared substructure.
//	cyclic     str / repr / String() / %s / %r of list-dict-tuple graphs with reference cycles, built through the Go API,
//	           return a finite string; run in a child process so that unbounded recursion is a verdict, not a crash
//	           of the checker.
//
// The comparison of v' with v is the harness's own (values_test.go), not starlark.Equal.
package c15

import (
	"encoding/json"
	"fmt"
	"math/big"
	"os"
	"strings"
	"testing"
	"unicode/utf8"

	"go.starlark.net/starlark"
	"go.starlark.net/syntax"
	"pgregory.net/rapid"
	"verif/harness/vk"
)

func TestMain(m *testing.M) {
	if os.Getenv("VERIF_C15_WORKER") == "1" {
		workerMain()
		return
	}
	vk.Describe("inverse laws: parse(Quote(s)) == s and Quote idempotent through parse; Eval(repr(v)) has the type and content of v (own structural comparison, floats by bits); "+
		"str(s) == s; printing of cyclic list/dict/tuple graphs terminates (child process, 64 MB stack cap, 60 s limit). "+
		"Non-trivial = string with >=1 code point that Quote must escape or >=1 non-BMP rune; float whose shortest repr has >=16 significant digits; "+
		"container of depth >=3 or with shared substructure; any cyclic graph; distinct by canonical JSON of the case.",
		"text strings that are not valid UTF-8 are outside the statement ('all valid UTF-8 strings and all byte strings'): generated rarely, counted as discarded, nothing asserted",
		"non-finite floats are outside the statement ('finite floats')",
		"dict equality after read-back is order-insensitive (the statement asks for an equal value)",
		"structs and other application types are not generated (a struct inside its own list overflows the stack: catalogued under C02)",
		"cycles always pass through a list or dict; tuple-only cycles cannot be built by Starlark programs and are not generated")
	vk.Main(m, "C15")
}

func canon(c any) string { b, _ := json.Marshal(c); return string(b) }

// ---------------------------------------------------------------- Starlark-side helpers

const helperSrc = `
def do_repr(x): return repr(x)
def do_str(x): return str(x)
def fmt_s(x): return "%s" % (x,)
def fmt_r(x): return "%r" % (x,)
`

var helpers starlark.StringDict

func init() {
	th := &starlark.Thread{Name: "helpers"}
	g, err := starlark.ExecFileOptions(&syntax.FileOptions{}, th, "helpers.star", helperSrc, nil)
	if err != nil {
		panic(err)
	}
	helpers = g
}

func callStr(name string, x starlark.Value) (string, error) {
	th := &starlark.Thread{Name: "c15"}
	v, err := starlark.Call(th, helpers[name], starlark.Tuple{x}, nil)
	if err != nil {
		return "", err
	}
	s, ok := v.(starlark.String)
	if !ok {
		return "", fmt.Errorf("%s returned a %s", name, v.Type())
	}
	return string(s), nil
}

func eval(src string) (starlark.Value, error) {
	th := &starlark.Thread{Name: "c15-eval"}
	return starlark.EvalOptions(&syntax.FileOptions{}, th, "printed", src, nil)
}

func trunc(s string) string {
	if len(s) > 160 {
		return s[:160] + "..."
	}
	return s
}

// ---------------------------------------------------------------- sub-check: quote

type QuoteCase struct {
	S     string `json:"s"` // strconv.Quote of the content, so that arbitrary bytes survive JSON
	Bytes bool   `json:"bytes,omitempty"`
}

func mkQuote(s string, b bool) QuoteCase { return QuoteCase{S: vStr(s).S, Bytes: b} }

func checkQuote(c QuoteCase) error {
	s := V{S: c.S}.text()
	if !c.Bytes && !utf8.ValidString(s) {
		// quoting is only claimed for valid UTF-8; "str of a string is the string itself" has no such condition
		// (an ill-formed string arises from byte slicing, e.g. "h\u00e9"[:2])
		if got, err := callStr("do_str", starlark.String(s)); err != nil || got != s {
			return fmt.Errorf("str(s) of the ill-formed string %q gives %q, %v: want the string itself", s, got, err)
		}
		vk.S.Class("quote/text-invalid-utf8: str identity only")
		return nil
	}
	kind := map[bool]string{false: "text", true: "bytes"}[c.Bytes]
	q := syntax.Quote(s, c.Bytes)
	bad := func(format string, args ...any) error {
		return fmt.Errorf("%s string %q quoted as %s: %s", kind, s, trunc(q), fmt.Sprintf(format, args...))
	}
	expr, err := syntax.ParseExpr("quoted", q, 0)
	if err != nil {
		return bad("the literal does not parse: %v", err)
	}
	lit, ok := expr.(*syntax.Literal)
	if !ok {
		return bad("parses as %T, not as one literal", expr)
	}
	wantTok := syntax.STRING
	if c.Bytes {
		wantTok = syntax.BYTES
	}
	if lit.Token != wantTok {
		return bad("parses as a %v literal", lit.Token)
	}
	back, ok := lit.Value.(string)
	if !ok || back != s {
		return bad("the literal denotes %q", lit.Value)
	}
	if q2 := syntax.Quote(back, c.Bytes); q2 != q {
		return bad("quoting the parsed value again gives %s", trunc(q2))
	}
	v, err := eval(q)
	if err != nil {
		return bad("the literal does not evaluate: %v", err)
	}
	var sv starlark.Value = starlark.String(s)
	if c.Bytes {
		sv = starlark.Bytes(s)
		if b, ok := v.(starlark.Bytes); !ok || string(b) != s {
			return bad("the literal evaluates to %s %v", v.Type(), trunc(v.String()))
		}
	} else {
		if t, ok := v.(starlark.String); !ok || string(t) != s {
			return bad("the literal evaluates to %s %v", v.Type(), trunc(v.String()))
		}
		if got, err := callStr("do_str", sv); err != nil || got != s {
			return bad("str(s) gives %q, %v", got, err)
		}
		if got, err := callStr("fmt_s", sv); err != nil || got != s {
			return bad("'%%s' %% s gives %q, %v", got, err)
		}
	}
	// repr(s) must be such a literal too
	r, err := callStr("do_repr", sv)
	if err != nil {
		return bad("repr fails: %v", err)
	}
	if r != q {
		if e2, err := syntax.ParseExpr("repr", r, 0); err != nil {
			return bad("repr gives %s, which does not parse: %v", trunc(r), err)
		} else if l2, ok := e2.(*syntax.Literal); !ok || l2.Token != wantTok || l2.Value != any(s) {
			return bad("repr gives %s, which does not denote the string", trunc(r))
		}
	}

	// classification
	escaped := q[1+b2i(c.Bytes):len(q)-1] != s
	astral := false
	for _, r := range s {
		if r >= 0x10000 {
			astral = true
		}
	}
	vk.S.Class("quote:" + kind)
	for _, cl := range stringClasses(s, c.Bytes) {
		vk.S.Class("quote/" + cl)
	}
	if escaped {
		vk.S.Class("quote/needs-escape")
	}
	if escaped || astral {
		vk.S.NonTrivial("quote" + canon(c))
		vk.S.Sample("quote", kind, c)
	}
	return nil
}

var subQuote = vk.Register("quote", checkQuote)

// ---------------------------------------------------------------- sub-check: roundtrip

type RoundCase struct {
	V V `json:"v"`
}

func checkRound(c RoundCase) error {
	if c.V.invalidText() {
		vk.S.Discard()
		vk.S.Class("roundtrip/text-invalid-utf8 (outside the statement)")
		return nil
	}
	if c.V.nonFinite() {
		vk.S.Discard()
		vk.S.Class("roundtrip/non-finite-float (outside the statement)")
		return nil
	}
	e := newEnv()
	v := e.build(&c.V)
	r, err := callStr("do_repr", v)
	if err != nil {
		return fmt.Errorf("repr fails: %v", err)
	}
	if s := v.String(); s != r {
		return fmt.Errorf("repr(v) is %s but v.String() is %s", trunc(r), trunc(s))
	}
	back, err := eval(r)
	if err != nil {
		return fmt.Errorf("repr(v) = %s is not valid source: %v", trunc(r), err)
	}
	if err := e.match(&c.V, back, "v"); err != nil {
		return fmt.Errorf("repr(v) = %s reads back as a different value: %v", trunc(r), err)
	}
	if c.V.K == "str" {
		if got, err := callStr("do_str", v); err != nil || got != c.V.text() {
			return fmt.Errorf("str(s) = %q (%v), want the string itself %q", got, err, c.V.text())
		}
	} else if c.V.K != "bytes" {
		// the statement says nothing about str of other values; it must merely not fail
		s, err := callStr("do_str", v)
		if err != nil {
			return fmt.Errorf("str fails: %v", err)
		}
		if s != r {
			vk.S.Class("roundtrip/str-differs-from-repr (nothing asserted)")
		}
	}

	// classification
	depth := c.V.depth()
	shared, digits16, esc, astral := false, false, false, false
	c.V.walk(func(x V) {
		vk.S.Class("roundtrip/has-" + x.K)
		switch x.K {
		case "ref":
			shared = true
		case "float":
			f := x.float()
			vk.S.Class("roundtrip/float-" + floatClass(f))
			if sigDigits(f) >= 16 {
				digits16 = true
			}
		case "int":
			vk.S.Class(fmt.Sprintf("roundtrip/int-digits<=%d", bucket(len(strings.TrimPrefix(x.I, "-")), []int{1, 9, 10, 19, 20, 40, 100, 400, 2000})))
		case "str", "bytes":
			s := x.text()
			if q := syntax.Quote(s, x.K == "bytes"); len(q) != len(s)+2+b2i(x.K == "bytes") {
				esc = true
			}
			for _, r := range s {
				if r >= 0x10000 {
					astral = true
				}
			}
		}
	})
	vk.S.Class(fmt.Sprintf("roundtrip:depth=%d", depth))
	if digits16 {
		vk.S.Class("roundtrip/float-needs>=16-digits")
	}
	if shared {
		vk.S.Class("roundtrip/shared-substructure")
	}
	if esc || astral || digits16 || depth >= 3 || shared {
		vk.S.NonTrivial("roundtrip" + canon(c))
		vk.S.Sample("roundtrip", c.V.K, c)
	}
	return nil
}

func bucket(n int, bs []int) int {
	for _, b := range bs {
		if n <= b {
			return b
		}
	}
	return 1 << 30
}

var subRound = vk.Register("roundtrip", checkRound)

// ---------------------------------------------------------------- sub-check: cyclic

// A CycCase is a graph of container nodes.  Element N>=0 refers to node N, N<0 is the leaf L.
type CycRef struct {
	N int `json:"n"`
	L *V  `json:"l,omitempty"`
}
type CycNode struct {
	K string   `json:"k"` // list | dict | tuple
	E []CycRef `json:"e"` // dict: values; the keys are 0,1,2,... (ints) or "k0","k1",... when StrKeys
}
type CycCase struct {
	Nodes   []CycNode `json:"nodes"`
	Root    int       `json:"root"`
	StrKeys bool      `json:"strkeys,omitempty"`
}

// normalise makes every reference legal: indices in range, and a tuple refers only to tuples of a higher
// index (so that no cycle consists of tuples alone — such a value cannot arise in a Starlark program).
func (c CycCase) normalise() CycCase {
	n := len(c.Nodes)
	out := CycCase{Root: 0, StrKeys: c.StrKeys}
	if n == 0 {
		out.Nodes = []CycNode{{K: "list"}}
		return out
	}
	out.Root = ((c.Root % n) + n) % n
	for i, nd := range c.Nodes {
		k := nd.K
		if k != "dict" && k != "tuple" {
			k = "list"
		}
		nn := CycNode{K: k}
		for _, r := range nd.E {
			if r.N >= 0 {
				r.N %= n
				r.L = nil
				if k == "tuple" && c.Nodes[r.N].K == "tuple" && r.N <= i {
					r = CycRef{N: -1}
				}
			}
			if r.N < 0 && (r.L == nil || r.L.depth() > 0 || r.L.K == "ref") {
				none := vNone()
				r = CycRef{N: -1, L: &none}
			}
			nn.E = append(nn.E, r)
		}
		out.Nodes = append(out.Nodes, nn)
	}
	return out
}

// cyclic reports whether some cycle is reachable from the root.
func (c CycCase) cyclic() bool {
	state := make([]int, len(c.Nodes))
	var visit func(i int) bool
	visit = func(i int) bool {
		switch state[i] {
		case 1:
			return true
		case 2:
			return false
		}
		state[i] = 1
		for _, r := range c.Nodes[i].E {
			if r.N >= 0 && visit(r.N) {
				return true
			}
		}
		state[i] = 2
		return false
	}
	return visit(c.Root)
}

func (c CycCase) build() starlark.Value {
	objs := make([]starlark.Value, len(c.Nodes))
	for i, nd := range c.Nodes {
		switch nd.K {
		case "list":
			objs[i] = starlark.NewList(nil)
		case "dict":
			objs[i] = starlark.NewDict(len(nd.E))
		case "tuple":
			t := make(starlark.Tuple, len(nd.E))
			for j := range t {
				t[j] = starlark.None
			}
			objs[i] = t
		}
	}
	e := newEnv()
	for i, nd := range c.Nodes {
		for j, r := range nd.E {
			var x starlark.Value
			if r.N >= 0 {
				x = objs[r.N]
			} else {
				x = e.build(r.L)
			}
			switch o := objs[i].(type) {
			case *starlark.List:
				o.Append(x)
			case *starlark.Dict:
				var k starlark.Value = starlark.MakeInt(j)
				if c.StrKeys {
					k = starlark.String(fmt.Sprintf("k%d", j))
				}
				o.SetKey(k, x)
			case starlark.Tuple:
				o[j] = x // the tuple shares its backing array with every reference to it
			}
		}
	}
	return objs[c.Root]
}

func checkCyclic(c CycCase) error {
	c = c.normalise()
	res, err := theWorker.run(c)
	if err != nil {
		return err
	}
	for _, o := range res.Out {
		if o.Err != "" {
			return fmt.Errorf("%s of a cyclic value fails: %s", o.How, o.Err)
		}
		if o.Len <= 0 {
			return fmt.Errorf("%s of a cyclic value returned an empty string", o.How)
		}
	}
	cyc := c.cyclic()
	vk.S.Class(fmt.Sprintf("cyclic:nodes=%d/cyclic=%v", len(c.Nodes), cyc))
	vk.S.Class(fmt.Sprintf("cyclic/root-is-%s", c.Nodes[c.Root].K))
	if len(res.Out) > 0 {
		vk.S.Class(fmt.Sprintf("cyclic/output-bytes<=%d", bucket(res.Out[0].Len, []int{10, 100, 1000, 10000, 100000, 1000000})))
	}
	if cyc {
		vk.S.NonTrivial("cyclic" + canon(c))
		vk.S.Sample("cyclic", c.Nodes[c.Root].K, c)
	}
	return nil
}

var subCyclic = vk.Register("cyclic", checkCyclic)

func TestReplay(t *testing.T) { vk.Replay(t) }

// ---------------------------------------------------------------- generators: exhaustive

// Every Unicode scalar value, alone and embedded between characters that would extend an escape
// ("a" r "0f"), as a text string; the same UTF-8 bytes as a byte string.
//
// Quick tier: planes 0-2 and 14-16 completely, planes 3-13 (unassigned throughout) every 16th code point.
func TestPropEveryCodePoint(t *testing.T) {
	if vk.Thorough() {
		vk.S.SetExhaustive("quote-every-unicode-scalar-value", true)
	} else {
		vk.S.SetExhaustive("quote-every-unicode-scalar-value-of-planes-0-2-and-14-16", true)
	}
	vk.Enum(t, subQuote, func(yield func(QuoteCase) bool) {
		for r := rune(0); r <= 0x10FFFF; r++ {
			if r >= 0xD800 && r < 0xE000 {
				continue
			}
			if !vk.Thorough() && r >= 0x30000 && r < 0xE0000 && r%16 != 0 {
				continue
			}
			if !vk.Mine(int(r) / 256) {
				continue
			}
			s := string(r)
			if r < 0x3000 || r >= 0xD000 && r < 0x10800 || r%64 == 0 {
				if !yield(mkQuote(s, false)) || !yield(mkQuote(s, true)) {
					return
				}
			}
			if !yield(mkQuote("a"+s+"0f", false)) {
				return
			}
		}
	})
}

// Every byte string of length <= 2, as bytes, and as text where it is valid UTF-8.
func TestPropEveryShortByteString(t *testing.T) {
	vk.S.SetExhaustive("quote-every-byte-string-len<=2", true)
	vk.Enum(t, subQuote, func(yield func(QuoteCase) bool) {
		if vk.Mine(0) && (!yield(mkQuote("", true)) || !yield(mkQuote("", false))) {
			return
		}
		for a := 0; a < 256; a++ {
			if !vk.Mine(a) {
				continue
			}
			if !yield(mkQuote(string([]byte{byte(a)}), true)) {
				return
			}
			for b := 0; b < 256; b++ {
				s := string([]byte{byte(a), byte(b)})
				if !yield(mkQuote(s, true)) {
					return
				}
				if utf8.ValidString(s) && !yield(mkQuote(s, false)) {
					return
				}
			}
		}
	})
}

// Fixed list of float and int boundary values.
func TestPropBoundaryNumbers(t *testing.T) {
	vk.S.SetExhaustive("roundtrip-boundary-numbers", true)
	vk.Enum(t, subRound, func(yield func(RoundCase) bool) {
		for i, v := range boundaryNumbers() {
			if !vk.Mine(i) {
				continue
			}
			if !yield(RoundCase{v}) || !yield(RoundCase{V{K: "list", E: []V{v}}}) || !yield(RoundCase{V{K: "tuple", E: []V{v}}}) {
				return
			}
		}
	})
}

// All list/dict/tuple graphs with <= 2 nodes and <= 2 edges per node (self loops, mutual references).
// An integer next to strings and bytes that spell it (decimal, hex, octal, binary, with and without sign or prefix): in the
// printed text these are different literals of different types, however alike their spellings are.
func TestPropIntTextSiblings(t *testing.T) {
	vk.S.SetExhaustive("int-next-to-its-own-spellings", true)
	vk.Enum(t, subRound, func(yield func(RoundCase) bool) {
		var ns []*big.Int
		for _, k := range []uint{31, 32, 53, 63, 64, 65, 80, 128} {
			for _, d := range []int64{-1, 0, 1} {
				ns = append(ns, new(big.Int).Add(new(big.Int).Lsh(big.NewInt(1), k), big.NewInt(d)))
			}
		}
		ten24, _ := new(big.Int).SetString("1000000000000000000000000", 10)
		ns = append(ns, ten24, big.NewInt(0), big.NewInt(255), big.NewInt(493))
		// integers whose big-endian bytes are themselves text
		for _, txt := range []string{"ABCDEFGHI", "starlark!", "0123456789abc", "\x01\x00\x00\x00\x00\x00\x00\x00\x00"} {
			ns = append(ns, new(big.Int).SetBytes([]byte(txt)))
		}
		i := 0
		for _, n := range ns {
			for _, neg := range []bool{false, true} {
				x := new(big.Int).Set(n)
				if neg {
					x.Neg(x)
				}
				i++
				if !vk.Mine(i) {
					continue
				}
				var sib []V
				for _, base := range []int{10, 16, 8, 2, 36} {
					txt := n.Text(base)
					sib = append(sib, vStr(txt), vBytes(txt), vStr("-"+txt), vStr(strings.ToUpper(txt)))
				}
				sib = append(sib, vBytes(string(n.Bytes())))
				if utf8.Valid(n.Bytes()) {
					sib = append(sib, vStr(string(n.Bytes())))
				}
				sib = append(sib, vStr("0x"+n.Text(16)), vStr("0o"+n.Text(8)), vStr("0b"+n.Text(2)), vStr(x.String()), vFloat(1.5))
				// the int first, last, and as a dict key / value beside its spellings
				l1 := V{K: "list", E: append([]V{vInt(x)}, sib...)}
				l2 := V{K: "tuple", E: append(append([]V{}, sib...), vInt(x), vInt(n))}
				d := V{K: "dict", E: []V{vStr(n.Text(16)), vInt(x), vInt(x), vStr(n.Text(16)), vBytes(n.Text(10)), vInt(n)}}
				if !yield(RoundCase{l1}) || !yield(RoundCase{l2}) || !yield(RoundCase{d}) {
					return
				}
			}
		}
	})
}

func TestPropSmallGraphs(t *testing.T) {
	vk.S.SetExhaustive("cyclic-all-graphs-2-nodes-2-edges", true)
	kinds := []string{"list", "dict", "tuple"}
	leaf := V{K: "int", I: "7"}
	targets := []CycRef{{N: 0}, {N: 1}, {N: -1, L: &leaf}}
	var edgeSets [][]CycRef
	edgeSets = append(edgeSets, nil)
	for _, a := range targets {
		edgeSets = append(edgeSets, []CycRef{a})
		for _, b := range targets {
			edgeSets = append(edgeSets, []CycRef{a, b})
		}
	}
	vk.Enum(t, subCyclic, func(yield func(CycCase) bool) {
		n := 0
		for _, k0 := range kinds {
			for _, k1 := range kinds {
				for _, e0 := range edgeSets {
					for _, e1 := range edgeSets {
						n++
						if !vk.Mine(n) {
							continue
						}
						if !yield(CycCase{Nodes: []CycNode{{k0, e0}, {k1, e1}}, StrKeys: n%2 == 0}) {
							return
						}
					}
				}
			}
		}
	})
}

// ---------------------------------------------------------------- generators: random

func TestPropQuote(t *testing.T) {
	vk.Rapid(t, subQuote, vk.N(50000, 600000), func(t *rapid.T) QuoteCase {
		if rapid.Bool().Draw(t, "bytes") {
			return mkQuote(genByteString().Draw(t, "b"), true)
		}
		return mkQuote(genTextString().Draw(t, "s"), false)
	})
}

func TestPropRoundTrip(t *testing.T) {
	vk.Rapid(t, subRound, vk.N(40000, 500000), func(t *rapid.T) RoundCase {
		g := &valueGen{t: t}
		return RoundCase{g.value(rapid.IntRange(0, 6).Draw(t, "maxdepth"), false)}
	})
}

func TestPropCyclic(t *testing.T) {
	vk.Rapid(t, subCyclic, vk.N(6000, 60000), func(t *rapid.T) CycCase {
		return genGraph(t)
	})
}
