// C08: arguments bind to parameters exactly as specified.
//
// Sub-check "bind": every signature of the bounded family (<=3 positional,
// star in {-, *, *args}, <=2 keyword-only, optional **kwargs; 280 signatures),
// as def and as lambda, is called with every call of the bounded family, both
// through compiled Starlark call expressions (one wrapper function per call
// shape, so CALL / CALL_VAR / CALL_KW / CALL_VAR_KW and the static argument
// count encoding are exercised) and through the Go API starlark.Call.  The
// oracle is an independent binder written from doc/spec.md (binder_test.go).
//
// Sub-check "unpack" (unpack_test.go): UnpackArgs / UnpackPositionalArgs
// against the rules in their doc comments.
package c08

import (
	"bytes"
	"fmt"
	"os"
	"runtime/debug"
	"strconv"
	"strings"
	"sync"
	"testing"

	"go.starlark.net/starlark"
	"go.starlark.net/syntax"
	"pgregory.net/rapid"
	"verif/harness/vk"
)

func TestMain(m *testing.M) {
	// The oracles allocate many short-lived small objects over a small live heap.  Purely a
	// throughput setting (measured: 300 is ~10% cheaper than 100; large values are much slower
	// because the heap then lives in freshly faulted pages).
	gcp := 300
	if v, err := strconv.Atoi(os.Getenv("C08_GOGC")); err == nil {
		gcp = v
	}
	debug.SetGCPercent(gcp)
	vk.Describe("bind: (signature, def|lambda, route vm|go, call) tuples; the function returns all of its parameters and the result is compared "+
		"object by object with the bindings computed by an independent binder written from doc/spec.md (error vs success only when the binder rejects). "+
		"Non-trivial = the call combines >=2 of {surplus positional, *seq, **dict, keyword-only parameter bound by name, default used, duplicate/multiple value}; "+
		"distinct by canonical string of the case. unpack: (spec, target types, call) checked against the documented UnpackArgs rules; non-trivial = >=2 of "+
		"{keyword argument, optional omitted, None for a ?? parameter, wrong type, duplicate, unknown keyword}.",
		"thorough tier enumerates the full bounded product (exhaustive); quick tier takes a VERIF_SEED-keyed systematic sample of it (1/2 of the calls that bind, 1/40 of the rejected ones; unpack: all calls without a wrong-typed argument, 1/4 of the others) plus rapid-drawn cases",
		"argument names are drawn from {a,b,c,k,m,z} for every signature (names the signature does not declare act as undeclared names), plus a small family using the names args/kwargs",
		"the binder was validated against CPython 3 on the whole product (VERIF_SELFTEST=1 go test -run TestSelfTestPython); python3 is not used for verdicts",
		"signatures with more than 3+2 named parameters and calls with >255 arguments are outside this check")
	vk.Main(m, "C08")
}

// ---------------------------------------------------------------- values

// Tok is an opaque value compared by identity.
type Tok struct{ name string }

func (t *Tok) String() string        { return t.name }
func (t *Tok) Type() string          { return "tok" }
func (t *Tok) Freeze()               {}
func (t *Tok) Truth() starlark.Bool  { return true }
func (t *Tok) Hash() (uint32, error) { return 0, fmt.Errorf("unhashable: tok") }

var (
	tokMu sync.Mutex
	toks  = map[string]*Tok{}
)

func tok(name string) *Tok {
	tokMu.Lock()
	defer tokMu.Unlock()
	t := toks[name]
	if t == nil {
		t = &Tok{name}
		toks[name] = t
	}
	return t
}

// valueOf maps the symbolic value names used by the binder to the Starlark
// values passed to the call.  Most are identity tokens; odd positional values
// are ints and odd *seq elements are strings so that numbers and strings
// travel through the call paths as well.
func valueOf(name string) starlark.Value {
	if len(name) >= 2 && (name[0] == 'p' || name[0] == 's') && name[1] >= '0' && name[1] <= '9' {
		if i, err := strconv.Atoi(name[1:]); err == nil && i%2 == 1 {
			if name[0] == 'p' {
				return starlark.MakeInt(100 + i)
			}
			return starlark.String(name)
		}
	}
	return tok(name)
}

// same reports whether got is exactly the value named want.
func same(got starlark.Value, want string) bool {
	w := valueOf(want)
	switch w.(type) {
	case *Tok, starlark.Int, starlark.String:
		switch got.(type) {
		case *Tok, starlark.Int, starlark.String:
			return got == w
		}
	}
	return false
}

// ---------------------------------------------------------------- signatures

// Sig is a function signature of the bounded family.  Positional parameters are
// named a, b, c (required first), keyword-only parameters k, m.
type Sig struct {
	NReq   int    `json:"nreq"`
	NOpt   int    `json:"nopt"`
	Star   int    `json:"star"`   // 0 none, 1 bare *, 2 *args
	KwOnly []bool `json:"kwonly"` // one entry per keyword-only parameter; true = has a default
	KwArgs bool   `json:"kwargs"`
}

var posNames = []string{"a", "b", "c", "d", "e", "g"}
var kwNames = []string{"k", "m", "n", "o"}

func (s Sig) valid() bool {
	if s.NReq < 0 || s.NOpt < 0 || s.NReq+s.NOpt > len(posNames) || len(s.KwOnly) > len(kwNames) || s.Star < 0 || s.Star > 2 {
		return false
	}
	if s.Star == 0 && len(s.KwOnly) > 0 {
		return false
	}
	if s.Star == 1 && len(s.KwOnly) == 0 {
		return false
	}
	return true
}

func (s Sig) key() string {
	var sb strings.Builder
	fmt.Fprintf(&sb, "%d%d%d", s.NReq, s.NOpt, s.Star)
	for _, o := range s.KwOnly {
		if o {
			sb.WriteByte('o')
		} else {
			sb.WriteByte('r')
		}
	}
	if s.KwArgs {
		sb.WriteByte('K')
	}
	return sb.String()
}

// paramList / resultTuple render the parameter list and the tuple of all parameters.
func (s Sig) paramList() (params string, result string) {
	var ps, rs []string
	for i := 0; i < s.NReq+s.NOpt; i++ {
		n := posNames[i]
		if i < s.NReq {
			ps = append(ps, n)
		} else {
			ps = append(ps, n+"=D_"+n)
		}
		rs = append(rs, n)
	}
	switch s.Star {
	case 1:
		ps = append(ps, "*")
	case 2:
		ps = append(ps, "*args")
		rs = append(rs, "args")
	}
	for i, opt := range s.KwOnly {
		n := kwNames[i]
		if opt {
			ps = append(ps, n+"=D_"+n)
		} else {
			ps = append(ps, n)
		}
		rs = append(rs, n)
	}
	if s.KwArgs {
		ps = append(ps, "**kwargs")
		rs = append(rs, "kwargs")
	}
	res := "()"
	if len(rs) > 0 {
		res = "(" + strings.Join(rs, ", ") + ",)"
	}
	return strings.Join(ps, ", "), res
}

// Source renders the definition of f; the text is valid Starlark and valid Python 3.
func (s Sig) Source(lambda bool) string {
	ps, res := s.paramList()
	if lambda {
		if ps == "" {
			return "f = lambda: " + res + "\n"
		}
		return "f = lambda " + ps + ": " + res + "\n"
	}
	return "def f(" + ps + "):\n    return " + res + "\n"
}

// allSigs lists the 280 signatures of the family in a fixed order.
func allSigs() []Sig {
	var out []Sig
	kwsets := [][]bool{{}, {false}, {true}, {false, false}, {false, true}, {true, false}, {true, true}}
	for nreq := 0; nreq <= 3; nreq++ {
		for nopt := 0; nreq+nopt <= 3; nopt++ {
			for star := 0; star <= 2; star++ {
				for _, kw := range kwsets {
					if star == 0 && len(kw) > 0 || star == 1 && len(kw) == 0 {
						continue
					}
					for _, kwargs := range []bool{false, true} {
						out = append(out, Sig{nreq, nopt, star, append([]bool{}, kw...), kwargs})
					}
				}
			}
		}
	}
	return out
}

var (
	fnMu    sync.Mutex
	fnCache = map[string]starlark.Value{}
)

var defaultsEnv = func() starlark.StringDict {
	d := starlark.StringDict{}
	for _, n := range posNames {
		d["D_"+n] = tok("D_" + n)
	}
	for _, n := range kwNames {
		d["D_"+n] = tok("D_" + n)
	}
	return d
}()

// execFile executes src; with viaBytes the program goes through its serialized form first (Program.Write,
// CompiledProgram), the way a host with a compilation cache runs it: binding must not depend on that.
func execFile(th *starlark.Thread, name, src string, pre starlark.StringDict, viaBytes bool) (starlark.StringDict, error) {
	if !viaBytes {
		return starlark.ExecFileOptions(&syntax.FileOptions{}, th, name, src, pre)
	}
	_, prog, err := starlark.SourceProgramOptions(&syntax.FileOptions{}, name, src, pre.Has)
	if err != nil {
		return nil, err
	}
	var buf bytes.Buffer
	if err := prog.Write(&buf); err != nil {
		return nil, err
	}
	prog2, err := starlark.CompiledProgram(&buf)
	if err != nil {
		return nil, err
	}
	return prog2.Init(th, pre)
}

func compileSig(s Sig, lambda bool) (starlark.Value, error) {
	key := s.key()
	if lambda {
		key += "L"
	}
	fnMu.Lock()
	defer fnMu.Unlock()
	if f, ok := fnCache[key]; ok {
		return f, nil
	}
	th := &starlark.Thread{Name: "def"}
	g, err := execFile(th, "sig.star", s.Source(lambda), defaultsEnv, len(key)%2 == 1)
	if err != nil {
		return nil, fmt.Errorf("cannot compile %q: %v", s.Source(lambda), err)
	}
	f := g["f"]
	if _, ok := f.(*starlark.Function); !ok {
		return nil, fmt.Errorf("f is %T", f)
	}
	fnCache[key] = f
	return f, nil
}

// ---------------------------------------------------------------- call shapes compiled as wrappers

var (
	wrapMu    sync.Mutex
	wrapCache = map[string]starlark.Value{}
)

// enter is called by every wrapper before the call under test: it proves that
// the wrapper's own parameters were bound, so a failure comes from the call expression.
var enterBuiltin = starlark.NewBuiltin("enter", func(th *starlark.Thread, _ *starlark.Builtin, args starlark.Tuple, kwargs []starlark.Tuple) (starlark.Value, error) {
	if p, ok := th.Local("entered").(*int); ok {
		*p++
	}
	return starlark.None, nil
})

func isIdent(s string) bool {
	if s == "" || len(s) > 8 {
		return false
	}
	for _, r := range s {
		if r < 'a' || r > 'z' {
			return false
		}
	}
	switch s {
	case "def", "if", "in", "or", "and", "not", "for", "else", "elif", "pass", "load", "break", "lambda", "return", "continue", "while", "as", "is", "del", "try", "with", "from", "class", "import", "global", "raise", "yield", "assert", "except", "finally", "nonlocal":
		return false
	}
	return true
}

// wrapper returns the function
//
//	def w(f, v0.., n0.., sa, sk):
//	    enter()
//	    r = f(v0, .., name0=n0, .., *sa, **sk)
//	    x = [0, 0, 0, 0, 0, 0, 0, 0, 0, 0]   # reuse the operand stack slots of the arguments
//	    return r
func wrapper(npos int, named []string, hasStar, hasSS bool) (starlark.Value, error) {
	kb := make([]byte, 0, 32)
	kb = append(kb, byte('0'+npos))
	if hasStar {
		kb = append(kb, '*')
	}
	if hasSS {
		kb = append(kb, '#')
	}
	for _, n := range named {
		kb = append(kb, ',')
		kb = append(kb, n...)
	}
	key := string(kb)
	wrapMu.Lock()
	defer wrapMu.Unlock()
	if w, ok := wrapCache[key]; ok {
		return w, nil
	}
	params := []string{"f"}
	var args []string
	for i := 0; i < npos; i++ {
		params = append(params, fmt.Sprintf("v%d", i))
		args = append(args, fmt.Sprintf("v%d", i))
	}
	for i, n := range named {
		params = append(params, fmt.Sprintf("n%d", i))
		args = append(args, fmt.Sprintf("%s=n%d", n, i))
	}
	if hasStar {
		params = append(params, "sa")
		args = append(args, "*sa")
	}
	if hasSS {
		params = append(params, "sk")
		args = append(args, "**sk")
	}
	src := "def w(" + strings.Join(params, ", ") + "):\n    enter()\n    r = f(" + strings.Join(args, ", ") +
		")\n    x = [0, 0, 0, 0, 0, 0, 0, 0, 0, 0, 0, 0]\n    return r\n"
	th := &starlark.Thread{Name: "wrap"}
	g, err := execFile(th, "wrap.star", src, starlark.StringDict{"enter": enterBuiltin}, len(src)%2 == 1)
	if err != nil {
		return nil, fmt.Errorf("cannot compile wrapper %q: %v", src, err)
	}
	wrapCache[key] = g["w"]
	return g["w"], nil
}

// ---------------------------------------------------------------- the case and its oracle

type BindCase struct {
	Sig    Sig      `json:"sig"`
	Lambda bool     `json:"lambda,omitempty"`
	Via    string   `json:"via"`             // "vm": compiled call expression; "go": starlark.Call
	NPos   int      `json:"npos"`            // positional values p0..
	Named  []string `json:"named,omitempty"` // named arguments in call order
	Star   int      `json:"star"`            // -1: no *seq; else its length (values s0..)
	List   bool     `json:"list,omitempty"`  // *seq is a list instead of a tuple
	HasSS  bool     `json:"has_ss,omitempty"`
	SS     []string `json:"ss,omitempty"` // keys of **dict in order (go route: may repeat)
}

func (c BindCase) key() string {
	var sb strings.Builder
	sb.WriteString(c.Sig.key())
	if c.Lambda {
		sb.WriteByte('L')
	}
	sb.WriteByte('/')
	sb.WriteString(c.Via)
	sb.WriteString(strconv.Itoa(c.NPos))
	sb.WriteByte('(')
	for _, n := range c.Named {
		sb.WriteString(n)
		sb.WriteByte(',')
	}
	sb.WriteByte('*')
	sb.WriteString(strconv.Itoa(c.Star))
	if c.List {
		sb.WriteByte('l')
	}
	if c.HasSS {
		sb.WriteString("**")
	}
	for _, n := range c.SS {
		sb.WriteString(n)
		sb.WriteByte(',')
	}
	return sb.String()
}

func hasDup(names ...[]string) bool {
	seen := map[string]bool{}
	for _, l := range names {
		for _, n := range l {
			if seen[n] {
				return true
			}
			seen[n] = true
		}
	}
	return false
}

// symbolic builds the symbolic argument lists of the case.
func (c BindCase) symbolic() (pos []string, named []KV, star []string, ss []KV) {
	for i := 0; i < c.NPos; i++ {
		pos = append(pos, "p"+strconv.Itoa(i))
	}
	for _, n := range c.Named {
		named = append(named, KV{n, "n:" + n})
	}
	for i := 0; i < c.Star; i++ {
		star = append(star, "s"+strconv.Itoa(i))
	}
	seen := map[string]int{}
	for _, n := range c.SS {
		seen[n]++
		if seen[n] == 1 {
			ss = append(ss, KV{n, "ss:" + n})
		} else {
			ss = append(ss, KV{n, fmt.Sprintf("ss%d:%s", seen[n], n)})
		}
	}
	return
}

func checkBind(c BindCase) error {
	if !c.Sig.valid() || c.NPos < 0 || c.NPos > 16 || c.Star < -1 || c.Star > 16 || len(c.Named) > 8 || len(c.SS) > 8 || (!c.HasSS && len(c.SS) > 0) {
		return fmt.Errorf("malformed case")
	}
	for _, l := range [][]string{c.Named, c.SS} {
		for _, n := range l {
			if !isIdent(n) {
				return fmt.Errorf("malformed case: name %q", n)
			}
		}
	}
	switch c.Via {
	case "vm":
		if hasDup(c.Named) || hasDup(c.SS) {
			return fmt.Errorf("malformed case: repeated name in a compiled call") // static error / impossible dict
		}
	case "go":
		if hasDup(c.Named) {
			return fmt.Errorf("malformed case: repeated named argument")
		}
	default:
		return fmt.Errorf("malformed case: via")
	}

	pos, named, star, ss := c.symbolic()
	want, reason, ft := Bind(c.Sig, pos, named, star, ss)

	f, err := compileSig(c.Sig, c.Lambda)
	if err != nil {
		return err
	}
	th := &starlark.Thread{Name: "c08"}
	var got starlark.Value
	var callErr error
	var ssDict *starlark.Dict
	switch c.Via {
	case "vm":
		w, err := wrapper(c.NPos, c.Named, c.Star >= 0, c.HasSS)
		if err != nil {
			return err
		}
		args := make(starlark.Tuple, 0, 1+c.NPos+len(c.Named)+2)
		args = append(args, f)
		for _, p := range pos {
			args = append(args, valueOf(p))
		}
		for _, kv := range named {
			args = append(args, valueOf(kv.V))
		}
		if c.Star >= 0 {
			elems := make([]starlark.Value, len(star))
			for i, s := range star {
				elems[i] = valueOf(s)
			}
			if c.List {
				args = append(args, starlark.NewList(elems))
			} else {
				args = append(args, starlark.Tuple(elems))
			}
		}
		if c.HasSS {
			ssDict = starlark.NewDict(len(ss))
			for _, kv := range ss {
				if err := ssDict.SetKey(starlark.String(kv.K), valueOf(kv.V)); err != nil {
					return fmt.Errorf("harness: %v", err)
				}
			}
			args = append(args, ssDict)
		}
		entered := 0
		th.SetLocal("entered", &entered)
		got, callErr = starlark.Call(th, w, args, nil)
		if entered != 1 {
			return fmt.Errorf("the wrapper of the call shape was not entered exactly once (%d): %v", entered, callErr)
		}
		if ssDict != nil && ssDict.Len() != len(ss) {
			return fmt.Errorf("the **dict argument was modified by the call: %v", ssDict)
		}
	case "go":
		args := make(starlark.Tuple, 0, len(pos)+len(star))
		for _, p := range pos {
			args = append(args, valueOf(p))
		}
		for _, s := range star {
			args = append(args, valueOf(s))
		}
		var kwargs []starlark.Tuple
		for _, kv := range named {
			kwargs = append(kwargs, starlark.Tuple{starlark.String(kv.K), valueOf(kv.V)})
		}
		for _, kv := range ss {
			kwargs = append(kwargs, starlark.Tuple{starlark.String(kv.K), valueOf(kv.V)})
		}
		got, callErr = starlark.Call(th, f, args, kwargs)
	}

	// classification
	cls := c.Via
	if c.Lambda {
		cls += "/lambda"
	} else {
		cls += "/def"
	}
	if want == nil {
		count(cls + "/reject:" + reason)
	} else {
		count(cls + "/bind")
	}
	nfeat := 0
	for i, on := range [...]bool{ft.Surplus, c.Star >= 0, c.HasSS, ft.KwOnlyByName, ft.DefaultUsed, ft.Duplicate} {
		if on {
			nfeat++
			featCount[i]++
		}
	}
	if nfeat >= 2 {
		vk.S.NonTrivial(c.key())
		ntCount++
		if want != nil && nfeat >= 4 {
			vk.S.Sample("bind", cls, c)
		}
	}

	describe := func() string {
		return fmt.Sprintf("%s called with positional=%v named=%v *seq=%v(present=%v) **dict=%v(present=%v) via %s",
			strings.TrimSpace(c.Sig.Source(c.Lambda)), pos, named, star, c.Star >= 0, ss, c.HasSS, c.Via)
	}
	if want == nil {
		if callErr == nil {
			return fmt.Errorf("%s: the call must fail (%s) but returned %v", describe(), reason, got)
		}
		return nil
	}
	if callErr != nil {
		return fmt.Errorf("%s: the call must bind %s but failed: %v", describe(), want, callErr)
	}
	if err := compareResult(c.Sig, got, want, ssDict); err != nil {
		return fmt.Errorf("%s: %v; got %v, want %s", describe(), err, got, want)
	}
	return nil
}

// compareResult checks the tuple (p..., args, k..., kwargs) returned by f against the bindings.
func compareResult(s Sig, got starlark.Value, want *Bound, passedDict *starlark.Dict) error {
	tup, ok := got.(starlark.Tuple)
	if !ok {
		return fmt.Errorf("result is %s, not a tuple", got.Type())
	}
	n := s.NReq + s.NOpt + len(s.KwOnly)
	if s.Star == 2 {
		n++
	}
	if s.KwArgs {
		n++
	}
	if len(tup) != n {
		return fmt.Errorf("result has %d elements, want %d", len(tup), n)
	}
	i := 0
	for j := 0; j < s.NReq+s.NOpt; j++ {
		if !same(tup[i], want.Params[posNames[j]]) {
			return fmt.Errorf("parameter %s is %v, want %s", posNames[j], tup[i], want.Params[posNames[j]])
		}
		i++
	}
	if s.Star == 2 {
		at, ok := tup[i].(starlark.Tuple)
		if !ok {
			return fmt.Errorf("*args is a %s, want tuple", tup[i].Type())
		}
		if len(at) != len(want.Args) {
			return fmt.Errorf("*args has %d elements, want %d", len(at), len(want.Args))
		}
		for x := range at {
			if !same(at[x], want.Args[x]) {
				return fmt.Errorf("*args[%d] is %v, want %s", x, at[x], want.Args[x])
			}
		}
		i++
	}
	for j := range s.KwOnly {
		if !same(tup[i], want.Params[kwNames[j]]) {
			return fmt.Errorf("parameter %s is %v, want %s", kwNames[j], tup[i], want.Params[kwNames[j]])
		}
		i++
	}
	if s.KwArgs {
		d, ok := tup[i].(*starlark.Dict)
		if !ok {
			return fmt.Errorf("**kwargs is a %s, want dict", tup[i].Type())
		}
		if passedDict != nil && d == passedDict {
			return fmt.Errorf("**kwargs is the caller's dict, not a new dictionary")
		}
		items := d.Items()
		if len(items) != len(want.KwArgs) {
			return fmt.Errorf("**kwargs has %d entries, want %d", len(items), len(want.KwArgs))
		}
		for x, it := range items {
			k, ok := it[0].(starlark.String)
			if !ok || string(k) != want.KwArgs[x].K || !same(it[1], want.KwArgs[x].V) {
				return fmt.Errorf("**kwargs entry %d is %v: %v, want %s: %s", x, it[0], it[1], want.KwArgs[x].K, want.KwArgs[x].V)
			}
		}
	}
	return nil
}

var subBind = vk.Register("bind", checkBind)

// Class counters are accumulated locally (the searches run on one goroutine) and handed to vk at the
// end of each test function: a mutex-protected map update per case was a measurable cost.
var (
	classCount = map[string]int{}
	featNames  = [...]string{"surplus-positional", "star-seq", "starstar-dict", "kwonly-bound", "default-used", "duplicate"}
	featCount  [len(featNames)]int
	ntCount    int
)

func count(class string) { classCount[class]++ }

func flushCounts() {
	for k, n := range classCount {
		vk.S.ClassN(k, n)
		delete(classCount, k)
	}
	for i, n := range featCount {
		if n > 0 {
			vk.S.ClassN("feature:"+featNames[i], n)
		}
		featCount[i] = 0
	}
	if ntCount > 0 {
		vk.S.ClassN("nt:bind", ntCount)
		ntCount = 0
	}
}

// ---------------------------------------------------------------- enumeration of the bounded product

// ssOpt is one choice for the **dict argument.
type ssOpt struct {
	Has    bool     `json:"has"`
	Names  []string `json:"names"`
	GoOnly bool     `json:"go_only,omitempty"` // repeats a key: only expressible through the Go API
}

// components are the independent dimensions of the call family; the product is
// npos x named x star x ss in this nesting order (the python self-test walks
// the same lists in the same order).
type components struct {
	NPos  []int      `json:"npos"`
	Named [][]string `json:"named"`
	Star  []int      `json:"star"`
	SS    []ssOpt    `json:"ss"`
}

var universe = []string{"a", "b", "c", "k", "m", "z"}

func subsetsUpTo(names []string, max int) [][]string {
	var out [][]string
	var rec func(start int, cur []string)
	rec = func(start int, cur []string) {
		out = append(out, append([]string{}, cur...))
		if len(cur) == max {
			return
		}
		for i := start; i < len(names); i++ {
			rec(i+1, append(cur, names[i]))
		}
	}
	rec(0, nil)
	return out
}

func reversed(l []string) []string {
	r := make([]string, len(l))
	for i, x := range l {
		r[len(l)-1-i] = x
	}
	return r
}

// mainComponents: 0-4 positional; named subsets (<=3) of {a,b,c,k,m,z} in declaration order and, for
// size >= 2, in reverse order; *seq absent or of length 0-3; **dict absent, empty, or with 1-2 keys
// (ordered) of the universe, plus (Go API only) a key repeated.
func mainComponents() components {
	var c components
	c.NPos = []int{0, 1, 2, 3, 4}
	for _, s := range subsetsUpTo(universe, 3) {
		c.Named = append(c.Named, s)
		if len(s) >= 2 {
			c.Named = append(c.Named, reversed(s))
		}
	}
	c.Star = []int{-1, 0, 1, 2, 3}
	c.SS = append(c.SS, ssOpt{Has: false}, ssOpt{Has: true})
	for _, x := range universe {
		c.SS = append(c.SS, ssOpt{Has: true, Names: []string{x}})
	}
	for _, x := range universe {
		for _, y := range universe {
			if x != y {
				c.SS = append(c.SS, ssOpt{Has: true, Names: []string{x, y}})
			}
		}
	}
	for _, x := range universe {
		c.SS = append(c.SS, ssOpt{Has: true, Names: []string{x, x}, GoOnly: true})
	}
	return c
}

// specialComponents: the names of the *args and **kwargs parameters themselves used as argument
// names (they are not nameable parameters: Python rejects them or files them under **kwargs).
func specialComponents() components {
	var c components
	c.NPos = []int{0, 1, 2}
	c.Named = [][]string{{"args"}, {"kwargs"}, {"args", "kwargs"}, {"kwargs", "a"}, {"k", "args"}, {"z", "kwargs"}, {}}
	c.Star = []int{-1, 1}
	c.SS = []ssOpt{{Has: false}, {Has: true, Names: []string{"args"}}, {Has: true, Names: []string{"kwargs"}}, {Has: true, Names: []string{"z", "args"}},
		{Has: true, Names: []string{"kwargs", "kwargs"}, GoOnly: true}}
	return c
}

// looksBindable is a cheap, allocation-free guess whether the call binds.  It only steers the
// sampling density of the quick tier; it takes no part in any verdict.
func looksBindable(s Sig, npos int, named []string, starLen int, ss []string) bool {
	np := s.NReq + s.NOpt
	e := npos + starLen
	if e > np && s.Star != 2 {
		return false
	}
	check := func(n string, prior []string, prior2 []string) bool {
		for _, p := range prior {
			if p == n {
				return false
			}
		}
		for _, p := range prior2 {
			if p == n {
				return false
			}
		}
		for i := 0; i < np; i++ {
			if posNames[i] == n {
				return i >= e
			}
		}
		for i := range s.KwOnly {
			if kwNames[i] == n {
				return true
			}
		}
		return s.KwArgs
	}
	for i, n := range named {
		if !check(n, named[:i], nil) {
			return false
		}
	}
	for i, n := range ss {
		if !check(n, named, ss[:i]) {
			return false
		}
	}
	has := func(n string) bool {
		for _, x := range named {
			if x == n {
				return true
			}
		}
		for _, x := range ss {
			if x == n {
				return true
			}
		}
		return false
	}
	for i := e; i < s.NReq; i++ {
		if !has(posNames[i]) {
			return false
		}
	}
	for i, opt := range s.KwOnly {
		if !opt && !has(kwNames[i]) {
			return false
		}
	}
	return true
}

const bindStride = 2

func splitmix(x uint64) uint64 {
	x += 0x9e3779b97f4a7c15
	x = (x ^ (x >> 30)) * 0xbf58476d1ce4e5b9
	x = (x ^ (x >> 27)) * 0x94d049bb133111eb
	return x ^ (x >> 31)
}

// enumBind walks signatures x {def, lambda} x {vm, go} x calls.  Blocks of
// (signature, kind, route, npos, named) are dealt to the shards; in the quick
// tier only a seed-keyed systematic sample of the calls is evaluated.
func enumBind(comp components, tag uint64, stride uint64, yield func(BindCase) bool) {
	sigs := allSigs()
	block := 0
	seed := uint64(vk.Seed())
	for si, sig := range sigs {
		for _, lambda := range []bool{false, true} {
			for _, via := range []string{"vm", "go"} {
				for _, npos := range comp.NPos {
					for ni, named := range comp.Named {
						block++
						if !vk.Mine(block) {
							continue
						}
						inner := 0
						for _, st := range comp.Star {
							if via == "go" && st < 0 {
								continue // the Go API has no "absent" sequence: same as empty
							}
							starLen := max(st, 0)
							for _, ss := range comp.SS {
								if via == "vm" && ss.GoOnly {
									continue
								}
								if via == "go" && !ss.Has {
									continue
								}
								inner++
								if stride > 1 {
									// quick tier: calls that look bindable are sampled more densely than the
									// (far more numerous) calls that will be rejected.
									st := stride
									if looksBindable(sig, npos, named, starLen, ss.Names) {
										st = bindStride
									}
									if splitmix(seed*1000003+tag<<40+uint64(block)<<8+uint64(inner))%st != 0 {
										continue
									}
								}
								c := BindCase{Sig: sig, Lambda: lambda, Via: via, NPos: npos, Named: named, Star: st,
									List: st >= 0 && (st+npos+ni+si)%2 == 1, HasSS: ss.Has, SS: ss.Names}
								if !yield(c) {
									return
								}
							}
						}
					}
				}
			}
		}
	}
}

func TestPropBindProduct(t *testing.T) {
	defer flushCounts()
	stride := uint64(40)
	if vk.Thorough() {
		stride = 1
	}
	vk.S.SetExhaustive("bind-product", vk.Thorough())
	vk.S.SetExhaustive("bind-special-names", true)
	vk.Enum(t, subBind, func(yield func(BindCase) bool) {
		ok := true
		y := func(c BindCase) bool { ok = yield(c); return ok }
		enumBind(specialComponents(), 2, 1, y)
		if ok {
			enumBind(mainComponents(), 1, stride, y)
		}
	})
}

// TestPropBindRandom draws from a slightly wider family (up to 5 positional values, named lists of up
// to 4 names in any order, *seq up to 4, **dict up to 3 keys) so that failures are shrunk by rapid.
func TestPropBindRandom(t *testing.T) {
	defer flushCounts()
	sigs := allSigs()
	names := append(append([]string{}, universe...), "args", "kwargs", "y")
	vk.Rapid(t, subBind, vk.N(30000, 60000), func(t *rapid.T) BindCase {
		c := BindCase{Sig: sigs[rapid.IntRange(0, len(sigs)-1).Draw(t, "sig")]}
		c.Lambda = rapid.Bool().Draw(t, "lambda")
		c.Via = rapid.SampledFrom([]string{"vm", "go"}).Draw(t, "via")
		c.NPos = rapid.IntRange(0, 5).Draw(t, "npos")
		c.Star = rapid.IntRange(-1, 4).Draw(t, "star")
		if c.Via == "go" && c.Star < 0 {
			c.Star = 0
		}
		c.List = c.Star >= 0 && rapid.Bool().Draw(t, "list")
		pool := names
		if rapid.Bool().Draw(t, "plausible") {
			// Bias towards calls that bind: only names of parameters not already filled by position
			// (plus undeclared names when there is a **kwargs to take them).
			pool = nil
			for i := c.NPos + max(c.Star, 0); i < c.Sig.NReq+c.Sig.NOpt; i++ {
				pool = append(pool, posNames[i])
			}
			pool = append(pool, kwNames[:len(c.Sig.KwOnly)]...)
			if c.Sig.KwArgs {
				pool = append(pool, "z", "y", "args")
			}
		}
		perm := rapid.Permutation(pool).Draw(t, "names")
		nnamed := rapid.IntRange(0, min(4, len(perm))).Draw(t, "nnamed")
		c.Named = append([]string{}, perm[:nnamed]...)
		rest := perm[nnamed:]
		c.HasSS = rapid.Bool().Draw(t, "has_ss")
		if c.HasSS {
			if rapid.IntRange(0, 3).Draw(t, "overlap") == 0 {
				rest = rapid.Permutation(pool).Draw(t, "ssnames") // may repeat a named argument
			}
			c.SS = append([]string{}, rest[:rapid.IntRange(0, min(3, len(rest))).Draw(t, "nss")]...)
			if c.Via == "go" && len(c.SS) > 0 && rapid.IntRange(0, 7).Draw(t, "dup") == 0 {
				c.SS = append(c.SS, c.SS[0])
			}
		}
		return c
	})
}

func TestReplay(t *testing.T) { defer flushCounts(); vk.Replay(t) }
