package c08

// Development-time self-test of the reference binder against CPython 3:
//
//	VERIF_SELFTEST=1 go test -tags verif -count=1 -run TestSelfTestPython ./c08
//
// The same definition text (valid in both languages) is exec'd by python3 and
// every call of the product is issued as f(*pos, *star, **k0, .., **k4) with
// one single-entry dict per named / **dict item, which has the semantics of
// the Starlark call (Python raises on a key repeated across ** operands).
// Per signature a digest of all outcomes is compared; on a mismatch the
// outcomes are listed and diffed.  Not run by ./check: python3 never takes
// part in a verdict.

import (
	"bufio"
	"crypto/sha1"
	"encoding/hex"
	"encoding/json"
	"fmt"
	"os"
	"os/exec"
	"strings"
	"testing"
)

const pySrc = `
import sys, json, hashlib

class V(str):
    pass

doc = json.load(open(sys.argv[1]))
verbose = set(sys.argv[2:])

def outcome(f, layout, pos, kws):
    ds = [{k: v} for (k, v) in kws] + [{}] * (5 - len(kws))
    try:
        r = f(*pos, **ds[0], **ds[1], **ds[2], **ds[3], **ds[4])
    except TypeError:
        return "E"
    parts = []
    for name, x in zip(layout or [], r):
        if name == "args":
            parts.append("args=(" + ",".join(x) + ")")
        elif name == "kwargs":
            parts.append("kwargs={" + ",".join(k + ":" + v for k, v in x.items()) + "}")
        else:
            parts.append(name + "=" + x)
    return ";".join(parts)

for comp in doc["components"]:
    for sig in doc["sigs"]:
        env = {}
        for n in "abcdegkmno":
            env["D_" + n] = "D_" + n
        exec(sig["src"], env)
        f = env["f"]
        h = hashlib.sha1()
        nbind = 0
        lines = []
        for npos in comp["npos"]:
            pos = ["p%d" % i for i in range(npos)]
            for named in comp["named"]:
                nkv = [(n, "n:" + n) for n in named]
                for st in comp["star"]:
                    star = ["s%d" % i for i in range(max(st, 0))]
                    for ss in comp["ss"]:
                        seen = {}
                        skv = []
                        for n in ss["names"] or []:
                            seen[n] = seen.get(n, 0) + 1
                            skv.append((n, "ss:" + n if seen[n] == 1 else "ss%d:%s" % (seen[n], n)))
                        o = outcome(f, sig["layout"], pos + star, nkv + skv)
                        if o != "E":
                            nbind += 1
                        h.update(o.encode() + b"\n")
                        if sig["key"] in verbose:
                            lines.append(o)
        print("SIG", comp["tag"], sig["key"], h.hexdigest(), nbind)
        for l in lines:
            print("OUT", l)
`

type pySig struct {
	Key    string   `json:"key"`
	Src    string   `json:"src"`
	Layout []string `json:"layout"`
}

type pyComp struct {
	Tag string `json:"tag"`
	components
}

func layout(s Sig) []string {
	var l []string
	l = append(l, posNames[:s.NReq+s.NOpt]...)
	if s.Star == 2 {
		l = append(l, "args")
	}
	l = append(l, kwNames[:len(s.KwOnly)]...)
	if s.KwArgs {
		l = append(l, "kwargs")
	}
	return l
}

// goOutcomes lists the binder's outcome for every call of comp in product order.
func goOutcomes(s Sig, comp components, each func(string)) {
	for _, npos := range comp.NPos {
		for _, named := range comp.Named {
			for _, st := range comp.Star {
				for _, ss := range comp.SS {
					c := BindCase{Sig: s, NPos: npos, Named: named, Star: st, HasSS: ss.Has, SS: ss.Names}
					pos, nkv, star, skv := c.symbolic()
					b, _, _ := Bind(s, pos, nkv, star, skv)
					if b == nil {
						each("E")
					} else {
						each(b.String())
					}
				}
			}
		}
	}
}

func TestSelfTestPython(t *testing.T) {
	if os.Getenv("VERIF_SELFTEST") == "" {
		t.Skip("set VERIF_SELFTEST=1 to compare the reference binder with python3")
	}
	dir := t.TempDir()
	var doc struct {
		Sigs       []pySig  `json:"sigs"`
		Components []pyComp `json:"components"`
	}
	sigs := allSigs()
	for _, s := range sigs {
		doc.Sigs = append(doc.Sigs, pySig{s.key(), s.Source(false), layout(s)})
	}
	comps := []pyComp{{"main", mainComponents()}, {"special", specialComponents()}}
	doc.Components = comps
	b, _ := json.Marshal(doc)
	os.WriteFile(dir+"/doc.json", b, 0o644)
	os.WriteFile(dir+"/selftest.py", []byte(pySrc), 0o644)

	run := func(verbose ...string) map[string][]string {
		cmd := exec.Command("python3", append([]string{dir + "/selftest.py", dir + "/doc.json"}, verbose...)...)
		cmd.Stderr = os.Stderr
		out, err := cmd.StdoutPipe()
		if err != nil {
			t.Fatal(err)
		}
		if err := cmd.Start(); err != nil {
			t.Fatal(err)
		}
		res := map[string][]string{}
		cur := ""
		sc := bufio.NewScanner(out)
		sc.Buffer(make([]byte, 1<<20), 1<<20)
		for sc.Scan() {
			f := strings.SplitN(sc.Text(), " ", 5)
			switch f[0] {
			case "SIG":
				cur = f[1] + " " + f[2]
				res[cur] = []string{f[3], f[4]}
			case "OUT":
				res[cur] = append(res[cur], strings.TrimPrefix(sc.Text(), "OUT "))
			}
		}
		if err := cmd.Wait(); err != nil {
			t.Fatalf("python3: %v", err)
		}
		return res
	}

	py := run()
	total, binds, bad := 0, 0, 0
	for _, comp := range comps {
		for _, s := range sigs {
			h := sha1.New()
			n, nb := 0, 0
			goOutcomes(s, comp.components, func(o string) {
				h.Write([]byte(o + "\n"))
				n++
				if o != "E" {
					nb++
				}
			})
			total += n
			binds += nb
			got := py[comp.Tag+" "+s.key()]
			if len(got) < 2 || got[0] != hex.EncodeToString(h.Sum(nil)) {
				bad++
				if bad > 3 {
					continue
				}
				t.Errorf("binder and python3 disagree on %s (%s): python %v", strings.TrimSpace(s.Source(false)), comp.Tag, got)
				// list the differing calls
				det := run(s.key())[comp.Tag+" "+s.key()]
				i := 0
				shown := 0
				goOutcomesIdx(s, comp.components, func(desc, o string) {
					if 2+i < len(det) && det[2+i] != o && shown < 10 {
						shown++
						t.Errorf("  call %s: binder %s, python %s", desc, o, det[2+i])
					}
					i++
				})
			}
		}
	}
	fmt.Printf("SELFTEST python3: %d (signature, call) pairs compared, %d bind, %d signatures x components disagree\n", total, binds, bad)
}

func goOutcomesIdx(s Sig, comp components, each func(desc, o string)) {
	for _, npos := range comp.NPos {
		for _, named := range comp.Named {
			for _, st := range comp.Star {
				for _, ss := range comp.SS {
					c := BindCase{Sig: s, NPos: npos, Named: named, Star: st, HasSS: ss.Has, SS: ss.Names}
					pos, nkv, star, skv := c.symbolic()
					b, _, _ := Bind(s, pos, nkv, star, skv)
					o := "E"
					if b != nil {
						o = b.String()
					}
					each(fmt.Sprintf("pos=%v named=%v star=%v ss=%v", pos, nkv, star, skv), o)
				}
			}
		}
	}
}
