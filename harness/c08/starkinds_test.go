package c08

// starkinds: the operand of * in a call must be iterable (strings and bytes are not), the operand of ** a
// mapping with string keys; an iterable operand contributes exactly its elements in iteration order.

import (
	"fmt"
	"testing"

	"go.starlark.net/starlark"
	"go.starlark.net/syntax"
	"verif/harness/vk"
)

type StarKindCase struct {
	Sig  string `json:"sig"`  // parameter list of f
	Lead string `json:"lead"` // arguments written before the star operand ("" or "7, ")
	Star string `json:"star"` // source of the * operand ("" = none)
	Kw   string `json:"kw"`   // source of the ** operand ("" = none)
}

// star operands: source -> elements (nil = must be rejected)
var starOperands = []struct {
	src   string
	elems []string
	ok    bool
}{
	{"[1, 2]", []string{"1", "2"}, true}, {"(1, 2)", []string{"1", "2"}, true}, {"[]", nil, true}, {"()", nil, true},
	{"range(2)", []string{"0", "1"}, true}, {"range(0)", nil, true}, {"{\"p\": 1, \"q\": 2}", []string{"\"p\"", "\"q\""}, true},
	{"\"ab\".elems()", []string{"\"a\"", "\"b\""}, true}, {"b\"ab\".elems()", []string{"97", "98"}, true},
	{"\"ab\".codepoints()", []string{"\"a\"", "\"b\""}, true}, {"\"\".elems()", nil, true}, {"[[1], (2,)]", []string{"[1]", "(2,)"}, true},
	{"\"ab\"", nil, false}, {"b\"ab\"", nil, false}, {"\"\"", nil, false}, {"b\"\"", nil, false}, {"5", nil, false}, {"None", nil, false}, {"1.5", nil, false},
	{"True", nil, false}, {"len", nil, false},
}

var kwOperands = []struct {
	src  string
	keys []string // nil with ok: empty
	ok   bool
}{
	{"{\"x\": 1}", []string{"x"}, true}, {"{}", nil, true}, {"dict(x = 1, y = 2)", []string{"x", "y"}, true},
	{"[(\"x\", 1)]", nil, false}, {"{1: 2}", nil, false}, {"None", nil, false}, {"\"x\"", nil, false}, {"5", nil, false}, {"b\"x\"", nil, false},
}

func checkStarKind(c StarKindCase) error {
	args := c.Lead
	if c.Star != "" {
		args += "*(" + c.Star + "), "
	}
	if c.Kw != "" {
		args += "**(" + c.Kw + ")"
	}
	src := fmt.Sprintf("def f(%s):\n    return (a, k)\nR = f(%s)\n", c.Sig, args)
	g, err := execFile(&starlark.Thread{Name: "starkinds"}, "sk.star", src, structEnv, len(src)%2 == 0)
	// expectation
	wantOK := true
	var elems []string
	if c.Lead != "" {
		elems = append(elems, "7")
	}
	for _, o := range starOperands {
		if o.src == c.Star {
			wantOK = wantOK && o.ok
			elems = append(elems, o.elems...)
		}
	}
	var keys []string
	for _, o := range kwOperands {
		if o.src == c.Kw {
			wantOK = wantOK && o.ok
			keys = o.keys
		}
	}
	if _, static := err.(*starlark.EvalError); err != nil && !static {
		return fmt.Errorf("template does not compile: %v\n%s", err, src)
	}
	if !wantOK {
		if err == nil {
			return fmt.Errorf("f(%s) succeeded (R = %v); the * operand must be iterable and the ** operand a mapping with string keys", args, g["R"])
		}
		vk.S.Class("starkinds:rejected")
		return nil
	}
	if err != nil {
		return fmt.Errorf("f(%s) failed: %v", args, err)
	}
	want := "(("
	for i, e := range elems {
		if i > 0 {
			want += ", "
		}
		want += e
	}
	if len(elems) == 1 {
		want += ","
	}
	want += "), {"
	for i, k := range keys {
		if i > 0 {
			want += ", "
		}
		want += fmt.Sprintf("%q: %d", k, i+1)
	}
	want += "})"
	if got := g["R"].String(); got != want {
		return fmt.Errorf("f(%s) = %s, want %s", args, got, want)
	}
	vk.S.Class("starkinds:bound")
	vk.S.NonTrivial(src)
	return nil
}

var structEnv = func() starlark.StringDict {
	g, err := starlark.ExecFileOptions(&syntax.FileOptions{}, &starlark.Thread{}, "env.star", "def struct(**kw):\n    return kw.items()\n", nil)
	if err != nil {
		panic(err)
	}
	return starlark.StringDict{"struct": g["struct"]}
}()

var subStarKind = vk.Register("starkinds", checkStarKind)

func TestPropStarKinds(t *testing.T) {
	vk.S.SetExhaustive("star-and-starstar-operand-kinds", true)
	vk.Enum(t, subStarKind, func(yield func(StarKindCase) bool) {
		i := 0
		for _, lead := range []string{"", "7, "} {
			for _, s := range append([]struct {
				src   string
				elems []string
				ok    bool
			}{{"", nil, true}}, starOperands...) {
				for _, k := range append([]struct {
					src  string
					keys []string
					ok   bool
				}{{"", nil, true}}, kwOperands...) {
					i++
					if vk.Mine(i) && !yield(StarKindCase{Sig: "*a, **k", Lead: lead, Star: s.src, Kw: k.src}) {
						return
					}
				}
			}
		}
	})
}
