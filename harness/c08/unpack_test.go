package c08

// Sub-check "unpack": starlark.UnpackArgs / starlark.UnpackPositionalArgs
// against the rules stated in their doc comments (starlark/unpack.go):
//
//   - positional arguments fill the parameters in order; more positional
//     arguments than parameters is an error;
//   - keyword arguments fill the parameter of that name; an unknown name and a
//     parameter that already has a value are errors;
//   - "name?" is optional; "name??" is optional and a None argument is treated
//     as absent (the variable keeps its value); after the first optional
//     parameter all following ones are optional whether or not marked;
//   - a required parameter without an argument is an error;
//   - the variable's type decides the type check, and a failed check must not
//     overwrite the variable ("never overwriting the target of a parameter
//     whose argument has the wrong type");
//   - a parameter without an argument keeps the variable's value (its default).
//
// UnpackPositionalArgs: error if len(args) < min or > len(vars), if kwargs is
// non-empty, or if a conversion fails.

import (
	"errors"
	"fmt"
	"strconv"
	"strings"
	"testing"

	"go.starlark.net/starlark"
	"pgregory.net/rapid"
	"verif/harness/vk"
)

type UParam struct {
	Mark string `json:"mark"` // "", "?", "??"
	Type string `json:"type"`
}

type UArg struct {
	Name string `json:"name,omitempty"` // keyword arguments only
	Kind string `json:"kind"`           // right | wrong | none
}

type UnpackCase struct {
	Mode   string   `json:"mode"` // "args": UnpackArgs; "pos": UnpackPositionalArgs
	Params []UParam `json:"params"`
	Min    int      `json:"min,omitempty"`
	Pos    []UArg   `json:"pos,omitempty"`
	Kw     []UArg   `json:"kw,omitempty"`
}

var uTypes = []string{"value", "string", "int", "bool", "list", "dict", "callable", "iterable", "float", "unpacker", "tok", "sint"}
var uNames = func() []string {
	names := []string{"a", "b", "c", "d", "e", "f"}
	for i := 6; i < 140; i++ {
		names = append(names, "q"+string(rune('a'+i/26))+string(rune('a'+i%26)))
	}
	return names
}()

// strUnpacker is an Unpacker that accepts strings only.
type strUnpacker struct {
	got   starlark.Value
	calls int
}

func (u *strUnpacker) Unpack(v starlark.Value) error {
	u.calls++
	if s, ok := v.(starlark.String); ok {
		u.got = s
		return nil
	}
	return errors.New("strUnpacker wants a string")
}

const nslots = 16

var (
	sentTok      = tok("<sentinel>")
	sentList     = starlark.NewList([]starlark.Value{starlark.String("sentinel")})
	sentDict     = starlark.NewDict(0)
	sentCallable = starlark.NewBuiltin("sentinel", noop)
	sentInt      = starlark.MakeInt(-4242)
	rightLists   [nslots]*starlark.List
	rightDicts   [nslots]*starlark.Dict
	rightFuncs   [nslots]*starlark.Builtin
	bigInt       = starlark.MakeInt(1).Lsh(70)
)

func noop(*starlark.Thread, *starlark.Builtin, starlark.Tuple, []starlark.Tuple) (starlark.Value, error) {
	return starlark.None, nil
}

func init() {
	for i := range rightLists {
		rightLists[i] = starlark.NewList([]starlark.Value{starlark.MakeInt(i)})
		rightDicts[i] = starlark.NewDict(1)
		rightDicts[i].SetKey(starlark.MakeInt(i), starlark.None)
		rightFuncs[i] = starlark.NewBuiltin("fn"+strconv.Itoa(i), noop)
	}
}

// target is one parameter variable of the Go caller, pre-set to a sentinel.
type target struct {
	typ string
	v   starlark.Value
	s   string
	i   int
	b   bool
	l   *starlark.List
	d   *starlark.Dict
	c   starlark.Callable
	it  starlark.Iterable
	f   float64
	u   strUnpacker
	t   *Tok
	si  starlark.Int
}

func newTarget(typ string) *target {
	return &target{typ: typ, v: sentTok, s: "<sentinel>", i: -777, b: true, l: sentList, d: sentDict, c: sentCallable, it: sentList,
		f: -7.5, u: strUnpacker{got: sentTok}, t: sentTok, si: sentInt}
}

func (t *target) ptr() any {
	switch t.typ {
	case "value":
		return &t.v
	case "string":
		return &t.s
	case "int":
		return &t.i
	case "bool":
		return &t.b
	case "list":
		return &t.l
	case "dict":
		return &t.d
	case "callable":
		return &t.c
	case "iterable":
		return &t.it
	case "float":
		return &t.f
	case "unpacker":
		return &t.u
	case "tok":
		return &t.t
	case "sint":
		return &t.si
	}
	panic("bad type " + t.typ)
}

func (t *target) isSentinel() bool {
	switch t.typ {
	case "value":
		return t.v == starlark.Value(sentTok)
	case "string":
		return t.s == "<sentinel>"
	case "int":
		return t.i == -777
	case "bool":
		return t.b
	case "list":
		return t.l == sentList
	case "dict":
		return t.d == sentDict
	case "callable":
		return t.c == starlark.Callable(sentCallable)
	case "iterable":
		return t.it == starlark.Iterable(sentList)
	case "float":
		return t.f == -7.5
	case "unpacker":
		return t.u.got == starlark.Value(sentTok)
	case "tok":
		return t.t == sentTok
	case "sint":
		return t.si == sentInt
	}
	return false
}

// holds reports whether the variable holds exactly the conversion of argument value v.
func (t *target) holds(v starlark.Value) bool {
	switch t.typ {
	case "value":
		return t.v == v
	case "string":
		s, ok := v.(starlark.String)
		return ok && t.s == string(s)
	case "int":
		x, ok := v.(starlark.Int)
		if !ok {
			return false
		}
		i64, ok := x.Int64()
		return ok && int64(t.i) == i64
	case "bool":
		b, ok := v.(starlark.Bool)
		return ok && t.b == bool(b)
	case "list":
		return starlark.Value(t.l) == v
	case "dict":
		return starlark.Value(t.d) == v
	case "callable":
		return t.c != nil && starlark.Value(t.c) == v
	case "iterable":
		return t.it != nil && starlark.Value(t.it) == v
	case "float":
		f, ok := v.(starlark.Float)
		return ok && t.f == float64(f)
	case "unpacker":
		return t.u.got == v
	case "tok":
		return starlark.Value(t.t) == v
	case "sint":
		return starlark.Value(t.si) == v
	}
	return false
}

func (t *target) show() string {
	switch t.typ {
	case "value":
		return fmt.Sprint(t.v)
	case "string":
		return strconv.Quote(t.s)
	case "int":
		return strconv.Itoa(t.i)
	case "bool":
		return fmt.Sprint(t.b)
	case "list":
		return fmt.Sprint(t.l)
	case "dict":
		return fmt.Sprint(t.d)
	case "callable":
		return fmt.Sprint(t.c)
	case "iterable":
		return fmt.Sprint(t.it)
	case "float":
		return fmt.Sprint(t.f)
	case "unpacker":
		return fmt.Sprint(t.u.got)
	case "tok":
		return fmt.Sprint(t.t)
	case "sint":
		return fmt.Sprint(t.si)
	}
	return "?"
}

// argValue returns the argument value for (parameter type, kind, slot) and whether the documented
// type check for that variable type accepts it.  No tuples are used so that all values are comparable.
func argValue(typ, kind string, slot int) (starlark.Value, bool) {
	slot %= nslots
	if kind == "none" {
		return starlark.None, typ == "value"
	}
	if kind == "right" {
		switch typ {
		case "value":
			return tok("v" + strconv.Itoa(slot)), true
		case "string":
			return starlark.String("r" + strconv.Itoa(slot)), true
		case "int":
			return starlark.MakeInt(1000 + slot), true
		case "bool":
			return starlark.False, true
		case "list":
			return rightLists[slot], true
		case "dict":
			return rightDicts[slot], true
		case "callable":
			return rightFuncs[slot], true
		case "iterable":
			if slot%2 == 0 {
				return rightLists[slot], true
			}
			return rightDicts[slot], true
		case "float":
			return starlark.Float(float64(slot) + 0.25), true
		case "unpacker":
			return starlark.String("u" + strconv.Itoa(slot)), true
		case "tok":
			return tok("t" + strconv.Itoa(slot)), true
		case "sint":
			return starlark.MakeInt(2000 + slot), true
		}
	}
	// wrong
	alt := slot%2 == 1
	pick := func(a, b starlark.Value) starlark.Value {
		if alt {
			return b
		}
		return a
	}
	switch typ {
	case "value": // every value is acceptable
		return pick(starlark.MakeInt(7), rightLists[slot]), true
	case "string":
		return pick(starlark.MakeInt(7), rightLists[slot]), false
	case "int":
		switch slot % 3 {
		case 0:
			return starlark.String("x"), false
		case 1:
			return starlark.Float(1.0), false
		}
		return bigInt, false // not representable in the variable
	case "bool":
		return pick(starlark.MakeInt(1), starlark.String("True")), false
	case "list":
		return pick(rightDicts[slot], starlark.String("[]")), false
	case "dict":
		return pick(rightLists[slot], starlark.MakeInt(0)), false
	case "callable":
		return pick(starlark.MakeInt(3), starlark.String("len")), false
	case "iterable":
		return pick(starlark.MakeInt(3), starlark.String("abc")), false
	case "float":
		return pick(starlark.String("1.5"), rightLists[slot]), false
	case "unpacker":
		return pick(starlark.MakeInt(9), rightLists[slot]), false
	case "tok":
		return pick(starlark.MakeInt(9), starlark.String("t")), false
	case "sint":
		return pick(starlark.String("5"), starlark.Float(5)), false
	}
	panic("bad type " + typ)
}

func validType(t string) bool {
	for _, x := range uTypes {
		if x == t {
			return true
		}
	}
	return false
}

func checkUnpack(c UnpackCase) error {
	n := len(c.Params)
	if n > len(uNames) || len(c.Pos) > 140 || len(c.Kw) > 8 || (c.Mode != "args" && c.Mode != "pos") || c.Min < 0 || c.Min > n {
		return fmt.Errorf("malformed case")
	}
	for _, p := range c.Params {
		if !validType(p.Type) || (p.Mark != "" && p.Mark != "?" && p.Mark != "??") {
			return fmt.Errorf("malformed case: param %+v", p)
		}
	}
	for _, a := range append(append([]UArg{}, c.Pos...), c.Kw...) {
		if a.Kind != "right" && a.Kind != "wrong" && a.Kind != "none" {
			return fmt.Errorf("malformed case: arg %+v", a)
		}
	}
	for _, a := range c.Kw {
		if !isIdent(a.Name) {
			return fmt.Errorf("malformed case: keyword %q", a.Name)
		}
	}

	index := map[string]int{}
	for i := range c.Params {
		index[uNames[i]] = i
	}

	// ---- the documented outcome
	type supplied struct {
		v       starlark.Value
		ok      bool // passes the type check
		skipped bool // None for a ?? parameter: treated as absent
	}
	perParam := make([][]supplied, n)
	assigned := make([]starlark.Value, n) // value the variable must hold on success (nil: keeps its sentinel)
	given := make([]bool, n)
	reject := ""
	fail := func(r string) {
		if reject == "" {
			reject = r
		}
	}
	var feat struct{ kw, omitted, noneSkip, wrong, dup, unknown bool }

	var args starlark.Tuple
	var kwargs []starlark.Tuple
	if len(c.Pos) > n {
		fail("too-many-positional")
	}
	for i, a := range c.Pos {
		if i >= n {
			v, _ := argValue("value", a.Kind, i)
			args = append(args, v)
			continue
		}
		p := c.Params[i]
		v, ok := argValue(p.Type, a.Kind, i)
		args = append(args, v)
		given[i] = true
		if c.Mode == "args" && p.Mark == "??" && v == starlark.None {
			perParam[i] = append(perParam[i], supplied{v, false, true})
			feat.noneSkip = true
			continue
		}
		perParam[i] = append(perParam[i], supplied{v, ok, false})
		if !ok {
			feat.wrong = true
			fail("wrong-type")
			continue
		}
		assigned[i] = v
	}
	for j, a := range c.Kw {
		slot := 8 + j
		i, known := index[a.Name]
		if !known {
			v, _ := argValue("value", a.Kind, slot)
			kwargs = append(kwargs, starlark.Tuple{starlark.String(a.Name), v})
			feat.unknown = true
			fail("unknown-keyword")
			continue
		}
		feat.kw = true
		p := c.Params[i]
		v, ok := argValue(p.Type, a.Kind, slot)
		kwargs = append(kwargs, starlark.Tuple{starlark.String(a.Name), v})
		if c.Mode == "pos" {
			continue
		}
		skipped := p.Mark == "??" && v == starlark.None
		perParam[i] = append(perParam[i], supplied{v, ok && !skipped, skipped})
		if given[i] {
			feat.dup = true
			fail("duplicate")
			continue
		}
		given[i] = true
		if skipped {
			feat.noneSkip = true
			continue
		}
		if !ok {
			feat.wrong = true
			fail("wrong-type")
			continue
		}
		assigned[i] = v
	}
	if c.Mode == "pos" {
		if len(c.Kw) > 0 {
			fail("keywords-not-allowed")
		}
		if len(c.Pos) < c.Min {
			fail("too-few-positional")
		}
	} else {
		optional := false
		for i, p := range c.Params {
			if p.Mark != "" {
				optional = true
			}
			if !given[i] {
				if optional {
					feat.omitted = true
				} else {
					fail("missing")
				}
			}
		}
	}

	// ---- the call
	targets := make([]*target, n)
	var pairs, vars []any
	for i, p := range c.Params {
		targets[i] = newTarget(p.Type)
		pairs = append(pairs, uNames[i]+p.Mark, targets[i].ptr())
		vars = append(vars, targets[i].ptr())
	}
	var err error
	if c.Mode == "args" {
		err = starlark.UnpackArgs("fn", args, kwargs, pairs...)
	} else {
		err = starlark.UnpackPositionalArgs("fn", args, kwargs, c.Min, vars...)
	}

	// ---- classification
	cls := "unpack/" + c.Mode + "/"
	if reject == "" {
		cls += "ok"
	} else {
		cls += "reject:" + reject
	}
	vk.S.Class(cls)
	nfeat := 0
	for _, b := range []bool{feat.kw, feat.omitted, feat.noneSkip, feat.wrong, feat.dup, feat.unknown} {
		if b {
			nfeat++
		}
	}
	if nfeat >= 2 {
		vk.S.NonTrivial(c.key())
		vk.S.Class("nt:unpack")
		if nfeat >= 3 {
			vk.S.Sample("unpack", cls, c)
		}
	}

	// ---- verdict
	spec := func() string {
		var ps []string
		for i, p := range c.Params {
			ps = append(ps, fmt.Sprintf("%q:%s", uNames[i]+p.Mark, p.Type))
		}
		kind := "UnpackArgs"
		if c.Mode == "pos" {
			kind = fmt.Sprintf("UnpackPositionalArgs(min=%d)", c.Min)
		}
		return fmt.Sprintf("%s [%s] args=%v kwargs=%v", kind, strings.Join(ps, " "), args, kwargs)
	}
	// A variable whose every supplied argument fails the type check (or is a skipped None) must keep its value.
	for i, sup := range perParam {
		if len(sup) == 0 {
			continue
		}
		allBad := true
		for _, s := range sup {
			if s.ok {
				allBad = false
			}
		}
		if allBad && !targets[i].isSentinel() {
			return fmt.Errorf("%s: the variable of parameter %s was overwritten (now %s) although its argument %v is not acceptable (err=%v)",
				spec(), uNames[i], targets[i].show(), sup[0].v, err)
		}
	}
	if reject != "" {
		if err == nil {
			return fmt.Errorf("%s: must fail (%s) but succeeded", spec(), reject)
		}
		return nil
	}
	if err != nil {
		return fmt.Errorf("%s: must succeed but failed: %v", spec(), err)
	}
	for i, t := range targets {
		if assigned[i] == nil {
			if !t.isSentinel() {
				return fmt.Errorf("%s: parameter %s got no value but its variable changed to %s", spec(), uNames[i], t.show())
			}
		} else if !t.holds(assigned[i]) {
			return fmt.Errorf("%s: the variable of parameter %s holds %s, want %v", spec(), uNames[i], t.show(), assigned[i])
		}
	}
	return nil
}

func (c UnpackCase) key() string {
	var sb strings.Builder
	sb.WriteString(c.Mode)
	sb.WriteString(strconv.Itoa(c.Min))
	for _, p := range c.Params {
		sb.WriteString(p.Type[:2])
		sb.WriteString(p.Mark)
		sb.WriteByte(',')
	}
	sb.WriteByte('|')
	for _, a := range c.Pos {
		sb.WriteByte(a.Kind[0])
	}
	sb.WriteByte('|')
	for _, a := range c.Kw {
		sb.WriteString(a.Name)
		sb.WriteByte(a.Kind[0])
	}
	return sb.String()
}

var subUnpack = vk.Register("unpack", checkUnpack)

// ---------------------------------------------------------------- generators

var uKinds = []string{"right", "wrong", "none"}
var uMarks = []string{"", "?", "??"}

// kindSeqs lists all sequences of kinds of length n.
func kindSeqs(n int) [][]string {
	out := [][]string{{}}
	for i := 0; i < n; i++ {
		var next [][]string
		for _, s := range out {
			for _, k := range uKinds {
				next = append(next, append(append([]string{}, s...), k))
			}
		}
		out = next
	}
	return out
}

// enumUnpackArgs: all marker sequences of 0..4 parameters (every order: the doc comment allows an
// unmarked parameter after an optional one) x a rotation of the 12 variable types x 0..n positional
// arguments of every kind (plus one call with n+1) x keyword sequences of length 0..2 over the declared
// names and z (repeats included) of every kind.
func enumUnpackArgs(rotations int, stride uint64, yield func(UnpackCase) bool) {
	seed := uint64(vk.Seed())
	block := 0
	for n := 0; n <= 4; n++ {
		nspecs := 1
		for i := 0; i < n; i++ {
			nspecs *= 3
		}
		names := append(append([]string{}, uNames[:n]...), "z")
		var kws [][]UArg
		kws = append(kws, nil)
		for _, x := range names {
			for _, k := range uKinds {
				kws = append(kws, []UArg{{x, k}})
			}
		}
		for _, x := range names {
			for _, kx := range uKinds {
				for _, y := range names {
					for _, ky := range uKinds {
						kws = append(kws, []UArg{{x, kx}, {y, ky}})
					}
				}
			}
		}
		for spec := 0; spec < nspecs; spec++ {
			for rot := 0; rot < rotations; rot++ {
				r := rot
				if rotations == 1 {
					r = (int(seed) + spec + n) % len(uTypes)
				}
				params := make([]UParam, n)
				x := spec
				for i := 0; i < n; i++ {
					params[i] = UParam{Mark: uMarks[x%3], Type: uTypes[(r+i*5)%len(uTypes)]}
					x /= 3
				}
				for npos := 0; npos <= n+1; npos++ {
					seqs := kindSeqs(npos)
					if npos == n+1 {
						seqs = seqs[:1]
					}
					for _, ks := range seqs {
						block++
						if !vk.Mine(block) {
							continue
						}
						pos := make([]UArg, npos)
						for i, k := range ks {
							pos[i] = UArg{Kind: k}
						}
						nwrongPos := 0
						for _, k := range ks {
							if k == "wrong" {
								nwrongPos++
							}
						}
						for j, kw := range kws {
							// quick tier: calls without a wrong-typed argument are all kept, the rest sampled
							if stride > 1 && (nwrongPos > 0 || hasWrong(kw)) && splitmix(seed*7919+uint64(block)<<12+uint64(j))%stride != 0 {
								continue
							}
							if !yield(UnpackCase{Mode: "args", Params: params, Pos: pos, Kw: kw}) {
								return
							}
						}
					}
				}
			}
		}
	}
}

func hasWrong(l []UArg) bool {
	for _, a := range l {
		if a.Kind == "wrong" {
			return true
		}
	}
	return false
}

func enumUnpackPositional(yield func(UnpackCase) bool) {
	block := 0
	for n := 0; n <= 4; n++ {
		for rot := 0; rot < len(uTypes); rot++ {
			params := make([]UParam, n)
			for i := range params {
				params[i] = UParam{Type: uTypes[(rot+i*5)%len(uTypes)]}
			}
			for min := 0; min <= n; min++ {
				for npos := 0; npos <= n+1; npos++ {
					seqs := kindSeqs(npos)
					if npos == n+1 {
						seqs = seqs[:1]
					}
					for _, ks := range seqs {
						block++
						if !vk.Mine(block) {
							continue
						}
						pos := make([]UArg, npos)
						for i, k := range ks {
							pos[i] = UArg{Kind: k}
						}
						for _, kw := range [][]UArg{nil, {{"a", "right"}}, {{"z", "none"}}} {
							if !yield(UnpackCase{Mode: "pos", Params: params, Min: min, Pos: pos, Kw: kw}) {
								return
							}
						}
					}
				}
			}
		}
	}
}

func TestPropUnpackProduct(t *testing.T) {
	rotations, stride := 1, uint64(4)
	if vk.Thorough() {
		rotations, stride = len(uTypes), 1
	}
	vk.S.SetExhaustive("unpack-args-product", vk.Thorough())
	vk.S.SetExhaustive("unpack-positional-product", true)
	vk.Enum(t, subUnpack, func(yield func(UnpackCase) bool) {
		ok := true
		y := func(c UnpackCase) bool { ok = yield(c); return ok }
		enumUnpackArgs(rotations, stride, y)
		if ok {
			enumUnpackPositional(y)
		}
	})
}

// TestPropUnpackRandom: independent variable types per parameter (the product enumerates a rotation
// only), up to 5 parameters, keyword lists of up to 3.
// TestPropUnpackWide: built-ins with 60-130 parameters (the set of already-bound parameters changes
// representation at 64): same rules, arguments given positionally up to a drawn point and by keyword beyond it.
func TestPropUnpackWide(t *testing.T) {
	vk.Rapid(t, subUnpack, vk.N(1500, 6000), func(t *rapid.T) UnpackCase {
		c := UnpackCase{Mode: "args"}
		n := []int{60, 63, 64, 65, 66, 100, 127, 128, 129}[vk.Uniform(t, 9)]
		firstOpt := vk.Uniform(t, n+1)
		for i := 0; i < n; i++ {
			p := UParam{Type: []string{"int", "value", "string"}[vk.Uniform(t, 3)]}
			if i >= firstOpt {
				p.Mark = []string{"?", "??"}[vk.Uniform(t, 2)]
			}
			c.Params = append(c.Params, p)
		}
		npos := vk.Uniform(t, n+2)
		if vk.Chance(t, 0.5) {
			npos = firstOpt
		}
		for i := 0; i < npos; i++ {
			c.Pos = append(c.Pos, UArg{Kind: "right"})
		}
		// at most one positional argument of the wrong type or None, so that most calls are decided by the
		// bookkeeping of bound parameters and not by a type error
		if npos > 0 && vk.Chance(t, 0.3) {
			c.Pos[vk.Uniform(t, npos)].Kind = []string{"wrong", "none"}[vk.Uniform(t, 2)]
		}
		for i := 0; i < vk.Uniform(t, 4); i++ {
			name := "z"
			if vk.Chance(t, 0.9) {
				name = uNames[vk.Uniform(t, n)]
			}
			c.Kw = append(c.Kw, UArg{Name: name, Kind: []string{"right", "right", "right", "wrong", "none"}[vk.Uniform(t, 5)]})
		}
		// one keyword given twice (a host-side call can do that): most often a parameter that no positional argument reaches
		if len(c.Kw) > 0 && len(c.Kw) < 8 && vk.Chance(t, 0.3) {
			c.Kw = append(c.Kw, UArg{Name: c.Kw[vk.Uniform(t, len(c.Kw))].Name, Kind: "right"})
		}
		return c
	})
}

func TestPropUnpackRandom(t *testing.T) {
	vk.Rapid(t, subUnpack, vk.N(40000, 80000), func(t *rapid.T) UnpackCase {
		c := UnpackCase{Mode: rapid.SampledFrom([]string{"args", "args", "args", "pos"}).Draw(t, "mode")}
		n := rapid.IntRange(0, 5).Draw(t, "n")
		for i := 0; i < n; i++ {
			p := UParam{Type: rapid.SampledFrom(uTypes).Draw(t, "type")}
			if c.Mode == "args" {
				p.Mark = rapid.SampledFrom(uMarks).Draw(t, "mark")
			}
			c.Params = append(c.Params, p)
		}
		if c.Mode == "pos" {
			c.Min = rapid.IntRange(0, n).Draw(t, "min")
		}
		kind := rapid.SampledFrom([]string{"right", "right", "right", "wrong", "none"})
		npos := rapid.IntRange(0, n+1).Draw(t, "npos")
		for i := 0; i < npos; i++ {
			c.Pos = append(c.Pos, UArg{Kind: kind.Draw(t, "kind")})
		}
		names := append(append([]string{}, uNames[:n]...), "z")
		nkw := rapid.IntRange(0, 3).Draw(t, "nkw")
		for i := 0; i < nkw; i++ {
			c.Kw = append(c.Kw, UArg{Name: rapid.SampledFrom(names).Draw(t, "kwname"), Kind: kind.Draw(t, "kwkind")})
		}
		return c
	})
}
