//go:build verif

package c08

import (
	"fmt"
	"math/big"
	"testing"

	"go.starlark.net/starlark"

	"verif/harness/vk"
)

// WidthCase: one integer argument unpacked into a Go variable of a sized integer type. The documented outcome
// (UnpackArgs: "Predeclared Go integer types use the AsInt check"; AsInt: "sets *ptr to the value of Starlark int
// x, if it is exactly representable, otherwise it returns an error"): the call succeeds and the variable holds
// the value iff the value lies in the type's range; otherwise it fails.
type WidthCase struct {
	Type string `json:"type"`
	V    string `json:"v"`    // decimal
	Mode string `json:"mode"` // pos (UnpackArgs positional), kw (UnpackArgs keyword), ppos (UnpackPositionalArgs)
}

var widthTypes = []string{"int", "int8", "int16", "int32", "int64", "uint", "uint8", "uint16", "uint32", "uint64"}

func widthRange(typ string) (lo, hi *big.Int) {
	bits := map[string]uint{"int": 64, "int8": 8, "int16": 16, "int32": 32, "int64": 64, "uint": 64, "uint8": 8, "uint16": 16, "uint32": 32, "uint64": 64}[typ]
	one := big.NewInt(1)
	if typ[0] == 'u' {
		return big.NewInt(0), new(big.Int).Sub(new(big.Int).Lsh(one, bits), one)
	}
	return new(big.Int).Neg(new(big.Int).Lsh(one, bits-1)), new(big.Int).Sub(new(big.Int).Lsh(one, bits-1), one)
}

func unpackInto[T int | int8 | int16 | int32 | int64 | uint | uint8 | uint16 | uint32 | uint64](mode string, v starlark.Value) (*big.Int, bool, error) {
	var x T = 77
	var err error
	switch mode {
	case "pos":
		err = starlark.UnpackArgs("f", starlark.Tuple{v}, nil, "x", &x)
	case "kw":
		err = starlark.UnpackArgs("f", nil, []starlark.Tuple{{starlark.String("x"), v}}, "x", &x)
	case "ppos":
		err = starlark.UnpackPositionalArgs("f", starlark.Tuple{v}, nil, 1, &x)
	default:
		return nil, false, fmt.Errorf("bad mode")
	}
	got := new(big.Int)
	if x < 0 {
		got.SetInt64(int64(x))
	} else {
		got.SetUint64(uint64(x))
	}
	return got, x == 77, err
}

func checkWidth(c WidthCase) error {
	want, ok := new(big.Int).SetString(c.V, 10)
	if !ok {
		return fmt.Errorf("malformed case")
	}
	v := starlark.MakeBigInt(want)
	var got *big.Int
	var untouched bool
	var err error
	switch c.Type {
	case "int":
		got, untouched, err = unpackInto[int](c.Mode, v)
	case "int8":
		got, untouched, err = unpackInto[int8](c.Mode, v)
	case "int16":
		got, untouched, err = unpackInto[int16](c.Mode, v)
	case "int32":
		got, untouched, err = unpackInto[int32](c.Mode, v)
	case "int64":
		got, untouched, err = unpackInto[int64](c.Mode, v)
	case "uint":
		got, untouched, err = unpackInto[uint](c.Mode, v)
	case "uint8":
		got, untouched, err = unpackInto[uint8](c.Mode, v)
	case "uint16":
		got, untouched, err = unpackInto[uint16](c.Mode, v)
	case "uint32":
		got, untouched, err = unpackInto[uint32](c.Mode, v)
	case "uint64":
		got, untouched, err = unpackInto[uint64](c.Mode, v)
	default:
		return fmt.Errorf("malformed case")
	}
	_ = untouched
	lo, hi := widthRange(c.Type)
	fits := want.Cmp(lo) >= 0 && want.Cmp(hi) <= 0
	vk.S.Class(fmt.Sprintf("width:%s:fits=%v", c.Type, fits))
	d1, d2 := new(big.Int).Sub(want, lo), new(big.Int).Sub(want, hi)
	if d1.IsInt64() && d1.Int64() >= -1 && d1.Int64() <= 1 || d2.IsInt64() && d2.Int64() >= -1 && d2.Int64() <= 1 {
		vk.S.NonTrivial(fmt.Sprintf("%+v", c))
		vk.S.Sample("int-width", fmt.Sprintf("fits=%v", fits), map[string]any{"case": c, "err": fmt.Sprint(err)})
	}
	switch {
	case fits && err != nil:
		return fmt.Errorf("%s <- %s (%s): representable, but rejected: %v", c.Type, c.V, c.Mode, err)
	case fits && got.Cmp(want) != 0:
		return fmt.Errorf("%s <- %s (%s): variable holds %s", c.Type, c.V, c.Mode, got)
	case !fits && err == nil:
		return fmt.Errorf("%s <- %s (%s): not representable in the variable's type, but accepted; the variable holds %s", c.Type, c.V, c.Mode, got)
	}
	return nil
}

var subWidth = vk.Register("unpack-int-width", checkWidth)

// Every sized integer target x every value within 2 of a power of two up to 2^65 (both signs) x three entry points.
func TestPropUnpackIntWidths(t *testing.T) {
	vk.S.SetExhaustive("int-targets-x-values-near-powers-of-two-x-entry-points", true)
	vk.Enum(t, subWidth, func(yield func(WidthCase) bool) {
		seen := map[string]bool{}
		var vals []string
		for k := uint(0); k <= 65; k++ {
			p := new(big.Int).Lsh(big.NewInt(1), k)
			for d := int64(-2); d <= 2; d++ {
				for _, sign := range []int64{1, -1} {
					x := new(big.Int).Add(p, big.NewInt(d))
					x.Mul(x, big.NewInt(sign))
					if s := x.String(); !seen[s] {
						seen[s] = true
						vals = append(vals, s)
					}
				}
			}
		}
		i := 0
		for _, typ := range widthTypes {
			for _, v := range vals {
				for _, mode := range []string{"pos", "kw", "ppos"} {
					i++
					if vk.Mine(i) && !yield(WidthCase{Type: typ, V: v, Mode: mode}) {
						return
					}
				}
			}
		}
	})
}
