package c08

// The reference binder.  Written from doc/spec.md, sections "Functions",
// "Function and method calls" and "Function definitions":
//
//   - "A call may provide arguments to function parameters either by position
//     ... or by name"; a *seq argument supplies further positional arguments
//     and a **dict argument further named ones ("a function call may provide
//     an arbitrary number of positional or named arguments supplied by a list
//     or dictionary").
//   - positional arguments go to the parameters before `*` / `*args`, in
//     order; keyword-only parameters "must [be provided] as keyword arguments,
//     not positional ones".
//   - "Any surplus positional arguments provided by the caller are formed into
//     a tuple and assigned to the args parameter"; without *args a surplus is
//     an error (example: "f accepts 1 positional argument (2 given)").
//   - "Any surplus named arguments that do not correspond to named parameters
//     are collected in a new dictionary and assigned to the kwargs parameter";
//     without **kwargs an unknown name is an error.
//   - two values for the same name ("f(x=1, **dict(x=2))") is a dynamic error,
//     and so is a name that was already filled by position (Python 3).
//   - "the default value ... for use in calls that do not provide an argument
//     value for it"; "all calls must provide an argument value for" required
//     parameters.
//
// It works on symbolic value names and a list of (name, kind, has-default)
// records looked up by name; it has no notion of frames, defaults tuples or
// mandatory markers.

import (
	"fmt"
	"strings"
)

// KV is one name=value item (value is a symbolic name).
type KV struct {
	K string `json:"k"`
	V string `json:"v"`
}

// Bound is the outcome of a successful binding.
type Bound struct {
	Params map[string]string // every named parameter -> value name
	Args   []string          // *args contents (signature with *args only)
	KwArgs []KV              // **kwargs contents in insertion order (signature with **kwargs only)
	sig    Sig
}

func (b *Bound) String() string {
	var parts []string
	for i := 0; i < b.sig.NReq+b.sig.NOpt; i++ {
		parts = append(parts, posNames[i]+"="+b.Params[posNames[i]])
	}
	if b.sig.Star == 2 {
		parts = append(parts, "args=("+strings.Join(b.Args, ",")+")")
	}
	for i := range b.sig.KwOnly {
		parts = append(parts, kwNames[i]+"="+b.Params[kwNames[i]])
	}
	if b.sig.KwArgs {
		var kv []string
		for _, e := range b.KwArgs {
			kv = append(kv, e.K+":"+e.V)
		}
		parts = append(parts, "kwargs={"+strings.Join(kv, ",")+"}")
	}
	return strings.Join(parts, ";")
}

// Features of a (signature, call) pair used for the non-triviality rule.
type Features struct {
	Surplus      bool // more positional values than positional parameters
	KwOnlyByName bool // a keyword-only parameter received a named argument
	DefaultUsed  bool // a default value was used
	Duplicate    bool // a name was given twice, or by position and by name
}

// param is one nameable parameter of a signature.
type param struct {
	name       string
	kwonly     bool
	hasDefault bool
}

// params lists the nameable parameters: positional ones first, then keyword-only ones.
func (s Sig) params() []param {
	ps := make([]param, 0, s.NReq+s.NOpt+len(s.KwOnly))
	for i := 0; i < s.NReq+s.NOpt; i++ {
		ps = append(ps, param{posNames[i], false, i >= s.NReq})
	}
	for i, opt := range s.KwOnly {
		ps = append(ps, param{kwNames[i], true, opt})
	}
	return ps
}

// Bind returns the bindings, or nil and the reason for rejection.
func Bind(sig Sig, positional []string, named []KV, star []string, starstar []KV) (*Bound, string, Features) {
	var ft Features

	// The arguments as the callee sees them: "a function call may provide an arbitrary number of
	// positional or named arguments supplied by a list or dictionary".
	posArgs := make([]string, 0, len(positional)+len(star))
	posArgs = append(posArgs, positional...)
	posArgs = append(posArgs, star...)
	kwArgs := make([]KV, 0, len(named)+len(starstar))
	kwArgs = append(kwArgs, named...)
	kwArgs = append(kwArgs, starstar...)

	params := sig.params()
	npositional := sig.NReq + sig.NOpt
	value := make([]string, len(params)) // "" = not bound yet
	lookup := func(name string) int {
		for i, p := range params {
			if p.name == name {
				return i
			}
		}
		return -1
	}

	out := &Bound{sig: sig}
	reject := ""
	fail := func(r string) {
		if reject == "" {
			reject = r
		}
	}

	// Positional arguments fill the parameters before * / *args in order; the surplus goes to *args.
	for i, v := range posArgs {
		if i < npositional {
			value[i] = v
			continue
		}
		ft.Surplus = true
		if sig.Star == 2 {
			out.Args = append(out.Args, v)
		} else {
			fail("too-many-positional")
		}
	}

	// Named arguments fill the parameter of that name, else go to **kwargs.
	for j, kv := range kwArgs {
		repeated := false
		for _, prev := range kwArgs[:j] {
			if prev.K == kv.K {
				repeated = true
			}
		}
		if repeated {
			ft.Duplicate = true
			fail("repeated-name")
			continue
		}
		if i := lookup(kv.K); i >= 0 {
			if value[i] != "" {
				ft.Duplicate = true
				fail("multiple-values")
				continue
			}
			value[i] = kv.V
			if params[i].kwonly {
				ft.KwOnlyByName = true
			}
			continue
		}
		if sig.KwArgs {
			out.KwArgs = append(out.KwArgs, kv)
		} else {
			fail("unexpected-name")
		}
	}

	// Defaults and missing arguments.
	for i, p := range params {
		if value[i] != "" {
			continue
		}
		if p.hasDefault {
			value[i] = "D_" + p.name
			ft.DefaultUsed = true
		} else {
			fail("missing")
		}
	}

	if reject != "" {
		return nil, reject, ft
	}
	out.Params = make(map[string]string, len(params))
	for i, p := range params {
		out.Params[p.name] = value[i]
	}
	return out, "", ft
}

var _ = fmt.Sprint
