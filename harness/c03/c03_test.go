// C03: execution is deterministic.
//
// Metamorphic oracle: the transcript of a program (effects, globals in
// iteration order, attribute listings, error text, backtrace, step count)
// must be byte-identical on a fresh thread, on a reused thread, after
// unrelated executions, under concurrent execution on several goroutines,
// and in other processes (whose per-process hash seeds differ).
package c03

import (
	"crypto/sha1"
	"encoding/hex"
	"encoding/json"
	"errors"
	"fmt"
	"strings"
	"sync"
	"testing"
	gotime "time"

	sjson "go.starlark.net/lib/json"
	smath "go.starlark.net/lib/math"
	stime "go.starlark.net/lib/time"
	"go.starlark.net/starlark"
	"go.starlark.net/starlarkstruct"
	"go.starlark.net/syntax"
	"pgregory.net/rapid"
	"verif/harness/gen"
	"verif/harness/host"
	"verif/harness/vk"
)

func TestMain(m *testing.M) {
	vk.Describe("generated programs (core language via the C01 generator, plus a determinism-sensitive section: dicts/sets with 9-300 entries, "+
		"string keys shorter and longer than the 12-byte hashing switch, deletion and re-insertion, set algebra, dir() of values and modules, str of structs/functions/bound methods/modules, "+
		"json.encode/decode, hash(), sorted, **kwargs dicts, struct construction, time.now() with an injected clock, failing programs); transcript = effects + canonical globals in iteration order + "+
		"error + Backtrace() + ExecutionSteps(). Compared: fresh thread vs same thread again vs after 3 unrelated programs vs 4 concurrent goroutines vs 2 child processes (own hash seeds; recycled regularly). "+
		"Non-trivial = the program iterates/prints a dict or set with >= 9 entries including a string key >= 12 bytes, or prints an attribute listing, or fails with a backtrace of depth >= 2; distinct by source.",
		"hash seeds are sampled (a few tens of processes per run); goroutine interleavings are whatever the scheduler produces",
		"the injected clock is fixed; wall-clock time never enters a transcript")
	vk.Main(m, "C03")
}

type Case struct {
	Prog gen.Program `json:"prog"`
}

var fixedNow = gotime.Date(2024, 2, 29, 12, 30, 45, 123456789, gotime.UTC)

// transcript runs the program on the given thread (nil: fresh) and renders everything observable.
func transcript(p gen.Program, thread *starlark.Thread, tr *host.Trace, shared starlark.StringDict) string {
	return transcriptProg(p, thread, tr, shared, nil)
}

// transcriptProg: with prog != nil the module is not compiled again but initialised from that compiled program
// (shared by all callers, as a host with a compilation cache does).
func transcriptProg(p gen.Program, thread *starlark.Thread, tr *host.Trace, shared starlark.StringDict, prog *starlark.Program) string {
	pre, th := host.Env(tr, "c03")
	if shared == nil {
		shared = buildShared()
	}
	for k, v := range shared {
		pre[k] = v // the same frozen Go values in every execution of the case: "the same predeclared environment"
	}
	pre["attempt"] = starlark.NewBuiltin("attempt", attempt)
	if thread != nil {
		thread.Print = th.Print
		th = thread
	}
	pre["time"] = stime.Module
	pre["json"] = sjson.Module
	pre["math"] = smath.Module
	pre["struct"] = starlark.NewBuiltin("struct", starlarkstruct.Make)
	pre["module"] = starlark.NewBuiltin("module", starlarkstruct.MakeModule)
	stime.SetNow(th, func() (gotime.Time, error) { return fixedNow, nil })
	th.SetMaxExecutionSteps(2000000)
	th.Load = func(t2 *starlark.Thread, module string) (starlark.StringDict, error) {
		src, ok := p.Modules[module]
		if !ok {
			return nil, fmt.Errorf("no module %s", module)
		}
		pre2, th2 := host.Env(tr, "load")
		return starlark.ExecFileOptions(p.Opts.FileOptions(), th2, module, src, pre2)
	}
	before := th.ExecutionSteps()
	var g starlark.StringDict
	var err error
	if prog != nil {
		g, err = prog.Init(th, pre)
	} else {
		g, err = starlark.ExecFileOptions(p.Opts.FileOptions(), th, "prog.star", p.Src, pre)
	}
	var sb strings.Builder
	for _, e := range tr.Events {
		sb.WriteString(e)
		sb.WriteString("\n")
	}
	sb.WriteString("--globals--\n")
	sb.WriteString(host.Canon(g))
	sb.WriteString("--keys--\n")
	sb.WriteString(strings.Join(g.Keys(), ","))
	sb.WriteString("\n" + g.String() + "\n")
	for _, k := range g.Keys() {
		if h, ok := g[k].(starlark.HasAttrs); ok {
			if _, isB := g[k].(*starlark.Builtin); !isB {
				fmt.Fprintf(&sb, "dir(%s)=%v\n", k, h.AttrNames())
			}
		}
	}
	if err != nil {
		sb.WriteString("--error--\n" + err.Error() + "\n")
		var ee *starlark.EvalError
		if errors.As(err, &ee) {
			sb.WriteString(ee.Backtrace() + "\n")
		} else {
			sb.WriteString("--static-error--\n")
		}
	}
	fmt.Fprintf(&sb, "steps=%d\n", th.ExecutionSteps()-before)
	return sb.String()
}

// attempt(f) calls f() and returns "ok" or the error message: rejected mutations of shared frozen values
// are part of the transcript without ending the program.
func attempt(th *starlark.Thread, b *starlark.Builtin, args starlark.Tuple, kwargs []starlark.Tuple) (starlark.Value, error) {
	var fn starlark.Callable
	if err := starlark.UnpackPositionalArgs("attempt", args, kwargs, 1, &fn); err != nil {
		return nil, err
	}
	if _, err := starlark.Call(th, fn, nil, nil); err != nil {
		if strings.Contains(err.Error(), "Starlark computation cancelled") {
			return nil, err
		}
		return starlark.String("error: " + err.Error()), nil
	}
	return starlark.String("ok"), nil
}

const sharedSrc = `
SH_BIG = (1 << 70) + 12345
SH_NEG = -(1 << 100) + 7
SH_I64 = (1 << 40) + 3
SH_NI64 = -(1 << 33) - 1
SH_SMALL = 12345
SH_FLOAT = 1.5e10
SH_STR = "shared-string-longer-than-twelve"
SH_BYTES = b"shared-bytes-longer-than-twelve"
SH_LIST = [(1 << 65) + i for i in range(8)] + list(range(120))
SH_NEST = [[1, 2], {"k": [3]}, (4, [5])]
SH_DICT = {("shared-key-%d-with-a-long-suffix" % i if i % 2 else "s%d" % i): [i] for i in range(40)}
SH_SET = set(["shared-elem-%d-with-a-long-suffix" % i for i in range(30)] + list(range(10)))
SH_TUP = (1, "a", (1 << 80), [1, 2], {"k": 1})
SH_RANGE = range(3, 1000, 7)
def sh_fn(x, acc = [1, 2]):
    return len(acc) + x
def _mk():
    hidden = [1, 2, 3]
    def get(i = 0):
        return hidden[i] + len(hidden)
    return get
sh_closure = _mk()
SH_STRUCT = struct(big = SH_BIG, l = [1], d = {"a": 1})
SH_BOUND = SH_LIST.index
`

// buildShared executes sharedSrc; the resulting globals are frozen values that a host would keep and hand to
// every execution (a configuration module, constants): big ints, strings, containers, functions.
func buildShared() starlark.StringDict {
	th := &starlark.Thread{Name: "shared"}
	pre := starlark.StringDict{"struct": starlark.NewBuiltin("struct", starlarkstruct.Make)}
	g, err := starlark.ExecFileOptions(&syntax.FileOptions{Set: true}, th, "shared.star", sharedSrc, pre)
	if err != nil {
		panic("shared module: " + err.Error())
	}
	delete(g, "_mk")
	return g
}

func digest(s string) string {
	h := sha1.Sum([]byte(s))
	return hex.EncodeToString(h[:8])
}

func firstDiff(a, b string) string {
	la, lb := strings.Split(a, "\n"), strings.Split(b, "\n")
	for i := 0; i < len(la) && i < len(lb); i++ {
		if la[i] != lb[i] {
			return fmt.Sprintf("line %d: %q vs %q", i+1, clip(la[i]), clip(lb[i]))
		}
	}
	return fmt.Sprintf("lengths %d vs %d lines", len(la), len(lb))
}

func clip(s string) string {
	if len(s) > 300 {
		return s[:300] + "..."
	}
	return s
}

var pollution = []string{
	"d = {}\nfor i in range(50): d['pollution-key-number-%d' % i] = i\nx = sorted(d)\n",
	"s = 'abc' * 100\nl = [hash(s[i:]) for i in range(20)]\n",
	"def f(**kw): return kw\nk = f(zeta=1, alpha=2, a_very_long_keyword_name=3)\ny = dir(k)\n",
}

var (
	workers   = []*vk.Worker{vk.NewWorker("c03"), vk.NewWorker("c03")}
	workersMu sync.Mutex
	useProcs  = true
)

type workerReply struct {
	Transcript string `json:"transcript"`
}

func checkDeterminism(c Case) error {
	p := c.Prog
	sh := buildShared()
	base := transcript(p, nil, &host.Trace{Limit: 4000}, sh)
	if strings.Contains(base, "too many steps") {
		vk.S.Discard()
		return nil
	}
	if strings.Contains(base, "--static-error--") {
		return fmt.Errorf("generated program is statically invalid (harness defect): %s", clip(base[strings.Index(base, "--error--"):]))
	}
	// classification
	nt := false
	if strings.Contains(p.Src, "# det:bigdict") {
		vk.S.Class("big-dict-long-keys")
		nt = true
	}
	if strings.Contains(p.Src, "# det:shared") {
		vk.S.Class("shared-frozen-values")
		nt = true
	}
	if strings.Contains(p.Src, "dir(") {
		vk.S.Class("attr-listing")
		nt = true
	}
	if strings.Contains(base, "--error--") {
		vk.S.Class("outcome:fail")
		if strings.Count(base, ": in ") >= 2 {
			vk.S.Class("deep-backtrace")
			nt = true
		}
	} else {
		vk.S.Class("outcome:ok")
	}
	if nt {
		vk.S.NonTrivial(p.Src)
		vk.S.Sample("determinism", "nt", p)
	}

	// (1) fresh thread again
	if t2 := transcript(p, nil, &host.Trace{Limit: 4000}, sh); t2 != base {
		return fmt.Errorf("second run on a fresh thread differs: %s", firstDiff(base, t2))
	}
	// (2) same thread reused, after unrelated executions
	th := &starlark.Thread{Name: "reused"}
	if t3 := transcript(p, th, &host.Trace{Limit: 4000}, sh); t3 != base {
		return fmt.Errorf("first run on a thread to be reused differs: %s", firstDiff(base, t3))
	}
	for _, src := range pollution {
		starlark.ExecFileOptions(&syntax.FileOptions{}, th, "pollution.star", src, nil)
	}
	if t4 := transcript(p, th, &host.Trace{Limit: 4000}, sh); t4 != base {
		return fmt.Errorf("run on a reused thread after other executions differs: %s", firstDiff(base, t4))
	}
	// (3) concurrent goroutines
	const N = 4
	res := make([]string, N)
	var wg sync.WaitGroup
	start := make(chan struct{})
	for i := 0; i < N; i++ {
		wg.Add(1)
		go func(i int) {
			defer wg.Done()
			<-start
			res[i] = transcript(p, nil, &host.Trace{Limit: 4000}, sh)
		}(i)
	}
	close(start)
	wg.Wait()
	for i, r := range res {
		if r != base {
			return fmt.Errorf("concurrent run %d differs: %s", i, firstDiff(base, r))
		}
	}
	// (3b) one compiled program, initialised concurrently by several threads (lazily decoded tables are shared)
	preNames, _ := host.Env(&host.Trace{}, "names")
	isPre := func(name string) bool {
		if _, ok := sh[name]; ok {
			return true
		}
		switch name {
		case "time", "json", "math", "struct", "module", "attempt":
			return true
		}
		return preNames.Has(name)
	}
	if _, prog, perr := starlark.SourceProgramOptions(p.Opts.FileOptions(), "prog.star", p.Src, isPre); perr == nil {
		var wg2 sync.WaitGroup
		start2 := make(chan struct{})
		for i := 0; i < N; i++ {
			wg2.Add(1)
			go func(i int) {
				defer wg2.Done()
				<-start2
				res[i] = transcriptProg(p, nil, &host.Trace{Limit: 4000}, sh, prog)
			}(i)
		}
		close(start2)
		wg2.Wait()
		for i, r := range res {
			if r != base {
				return fmt.Errorf("concurrent initialisation %d of one compiled program differs: %s", i, firstDiff(base, r))
			}
		}
		vk.S.Class("shared-program-leg")
	} else {
		return fmt.Errorf("SourceProgram rejects what ExecFile accepted: %v", perr)
	}
	// (4) other processes
	if useProcs {
		workersMu.Lock()
		defer workersMu.Unlock()
		for wi, w := range workers {
			if w.Served() >= 60 {
				w.Recycle() // new process, new hash seed
				vk.S.Class("worker-recycled")
			}
			var rep workerReply
			if err := w.Do(c, &rep, 120*gotime.Second); err != nil {
				var d *vk.Death
				if errors.As(err, &d) && d.Kind == "timeout" {
					vk.S.Timeout()
					continue
				}
				return fmt.Errorf("worker process %d failed: %v", wi, err)
			}
			vk.S.Class("process-legs")
			if rep.Transcript != base {
				return fmt.Errorf("run in another process (different hash seed) differs: %s", firstDiff(base, rep.Transcript))
			}
		}
	}
	return nil
}

var subDet = vk.Register("determinism", checkDeterminism)

func TestWorker(t *testing.T) {
	if vk.WorkerKind() != "c03" {
		t.Skip("not a worker")
	}
	vk.Serve(func(req json.RawMessage) any {
		var c Case
		if err := json.Unmarshal(req, &c); err != nil {
			return workerReply{"bad request: " + err.Error()}
		}
		return workerReply{transcript(c.Prog, nil, &host.Trace{Limit: 4000}, nil)}
	})
}

// detSection appends hash-sensitive statements to a program.
func detSection(t *rapid.T, opts gen.Opts) string {
	var sb strings.Builder
	line := func(format string, args ...any) { fmt.Fprintf(&sb, format+"\n", args...) }
	n := []int{9, 12, 30, 70, 150, 300}[vk.Uniform(t, 6)]
	stride := []int{1, 3, 7}[vk.Uniform(t, 3)]
	line("# det:bigdict")
	line("def det_main():")
	line("    d = {}")
	line("    for i in range(%d):", n)
	line("        k = (\"key-%%d-with-a-long-suffix\" %% ((i * %d) %% %d)) if i %% 2 else (\"k%%d\" %% i)", stride, n)
	line("        d[k] = i")
	if vk.Chance(t, 0.7) {
		line("    for i in range(0, %d, %d):", n, 2+vk.Uniform(t, 3))
		line("        d.pop(\"key-%%d-with-a-long-suffix\" %% i, None)")
		line("    for i in range(0, %d, %d):", n, 3+vk.Uniform(t, 3))
		line("        d[\"key-%%d-with-a-long-suffix\" %% i] = -i")
	}
	line("    print(d)")
	line("    print(list(d.items())[:7], d.keys()[-3:], len(d))")
	// every key that iteration yields must be found by lookup, membership and pop-with-default (whatever the hash seed)
	line("    print([k for k in list(d) if k not in d], [k for k in d.keys() if d.get(k, \"absent\") == \"absent\"], len([k for k, v in d.items() if d[k] != v]))")
	for i := 0; i < 1+vk.Uniform(t, 5); i++ {
		switch vk.Uniform(t, 14) {
		case 0:
			line("    print(sorted(d)[:5], sorted(d.values())[-3:])")
		case 1:
			line("    print(json.encode(d))")
		case 2:
			line("    print(json.encode(struct(zeta = 1, alpha = [d], a_very_long_field_name = 2.5)))")
		case 3:
			line("    print(dir(struct(zeta = 1, alpha = 2, a_very_long_field_name = 3)), dir(\"\"), dir({}), dir([]), dir(json), dir(math))")
		case 4:
			line("    print(struct(zeta = 1, alpha = d), struct(**d))")
		case 5:
			line("    print([hash(k) for k in d][:9], [hash(bytes(\"bytes-%%d-longer-than-twelve\" %% i)) for i in range(3)], hash(b\"short\"), hash(\"\"), hash(b\"\"))")
		case 6:
			line("    print(json.decode('{\"b\": 1, \"a_long_object_key_here\": [1, 2, {\"z\": 0, \"y\": 1}], \"a\": 2.5}'))")
		case 7:
			line("    def kw(**kwargs): return kwargs")
			line("    print(kw(**d), kw(zeta = 1, alpha = 2, a_very_long_keyword_name = 3))")
		case 8:
			line("    print(str(det_main), str(d.get), str(json), str(len), repr(time.now()), time.now().unix)")
		case 9:
			line("    print(\"%%s %%r\" %% (d, list(d)), \"{} {x}\".format(d, x = d))")
		case 10:
			if opts.Set {
				line("    s1 = set(d.keys())")
				line("    s2 = set([\"key-%%d-with-a-long-suffix\" %% i for i in range(5, %d, 2)])", n+20)
				line("    print(s1 | s2, s1 & s2, s1 - s2, s1 ^ s2, s2.union(s1), len(s1))")
				line("    print(s1 <= (s1 | s2), (s1 & s2) <= s1, (s1 & s2) < s1, s1.issubset(list(s1 | s2)), (s1 | s2).issuperset(s2), (s1 | s2) >= s1, s1 <= s2, s1 == set(list(s1)))")
			} else {
				line("    print({v: k for k, v in d.items()})")
			}
		case 11:
			line("    e = dict(d)")
			line("    e.update([(k, 0) for k in sorted(d, reverse = True)[:10]], a_new_long_keyword_key = 1)")
			line("    print(e, d | e, e == d)")
		case 12:
			line("    m = module(\"mymod\", zeta = 1, alpha = d, a_very_long_member_name = 3)")
			line("    print(m, dir(m))")
		case 13:
			line("    print(struct(a = 1) + struct(b = 2, a_very_long_field_name = 3), struct(b = 1, a = 2) == struct(a = 2, b = 1))")
		}
	}
	if vk.Chance(t, 0.25) {
		// fail a few frames deep so that the backtrace is part of the transcript
		line("    def inner(x): return [x[k] for k in [\"missing-key-with-a-long-name\"]]")
		line("    return sorted([d], key = inner)")
	} else {
		line("    return d")
	}
	line("DET = det_main()")
	return sb.String()
}

// sharedSection appends operations on the shared frozen values: pure operations (whose operands must come out
// unchanged), iteration, calls, and mutation attempts (whose error text is part of the transcript).
func sharedSection(t *rapid.T) string {
	var sb strings.Builder
	line := func(format string, args ...any) { fmt.Fprintf(&sb, format+"\n", args...) }
	pick := func(xs ...string) string { return xs[vk.Uniform(t, len(xs))] }
	ints := []string{"SH_BIG", "SH_NEG", "SH_I64", "SH_NI64", "SH_SMALL", "SH_STRUCT.big", "SH_LIST[3]", "SH_TUP[2]"}
	num := func() string {
		if vk.Chance(t, 0.75) {
			return ints[vk.Uniform(t, len(ints))]
		}
		return fmt.Sprint(1 + vk.Uniform(t, 70))
	}
	small := func() string { return fmt.Sprint(1 + vk.Uniform(t, 70)) }
	line("# det:shared")
	line("def sh_main():")
	n := 4 + vk.Uniform(t, 9)
	for i := 0; i < n; i++ {
		switch vk.Uniform(t, 10) {
		case 0:
			op := pick("+", "-", "*", "//", "%%", "&", "|", "^", "<", "<=", "==", "!=", ">", ">=")
			line("    t(\"sh\", %s "+op+" %s)", num(), num())
		case 1:
			line("    t(\"sh\", %s %s %s)", num(), pick("<<", ">>"), small())
		case 2:
			a := num()
			op := pick("+=", "-=", "*=", "//=", "%%=", "&=", "|=", "^=", ">>=", "<<=")
			b := num()
			if op == ">>=" || op == "<<=" {
				b = small()
			}
			line("    x%d = %s", i, a)
			line("    x%d "+op+" %s", i, b)
			line("    t(\"sh\", [x%d, %s])", i, a)
		case 3:
			a := num()
			line("    t(\"sh\", [%s, str(%s), repr(%s), float(%s), int(%s), bool(%s), \"%%d %%x %%o\" %% (%s, %s, %s), int(str(%s))])",
				pick("-"+a, "~"+a, "+"+a, "abs("+a+")"), a, a, a, a, a, a, a, a, a)
		case 4:
			line("    t(\"sh\", %s)", pick("len(SH_LIST + [1])", "len(SH_LIST * 2)", "SH_LIST[2:9]", "sorted(SH_LIST, reverse = True)[:3]",
				"list(reversed(SH_LIST))[:3]", "sorted(SH_SET, key = str)[:4]", "SH_TUP + (1,)", "len(SH_TUP * 3)", "SH_STR * 2", "SH_STR + \"x\"",
				"SH_BYTES + b\"x\"", "len(SH_DICT | {\"n\": 1})", "len(dict(SH_DICT, n = 1))", "len(SH_SET | SH_SET.union([1, \"z\"]))",
				"len(SH_SET & SH_SET.intersection([1, 2]))", "SH_NEST + SH_NEST", "[SH_NEST[0] + [9], SH_NEST[1] | {\"q\": 1}, SH_NEST[2] + (9,)]",
				"SH_STR.upper() + SH_STR[3:7]", "SH_BYTES[2:5]", "list(SH_DICT.items())[:3]", "max(SH_LIST) - min(SH_LIST)", "SH_LIST.index(7)",
				"SH_FLOAT * 3 - 1", "SH_RANGE[5:50:3]", "list(zip(SH_LIST, SH_TUP))", "sorted(SH_DICT)[:3]", "SH_DICT.get(\"s2\")"))
		case 5:
			line("    "+pick("for e%d in SH_LIST: pass", "c%d = len([e for e in SH_DICT])", "for k%d, v in SH_DICT.items(): pass", "for e%d in SH_SET: pass",
				"c%d = len([c for c in SH_RANGE])", "for e%d in SH_NEST: pass", "c%d = len([e for e in SH_TUP if e])"), i)
		case 6:
			line("    t(\"sh\", attempt(%s))", pick("lambda: SH_LIST.append(1)", "lambda: SH_LIST.extend([1])", "lambda: SH_LIST.insert(0, 1)", "lambda: SH_LIST.pop()",
				"lambda: SH_LIST.remove(7)", "lambda: SH_LIST.clear()", "lambda: SH_DICT.setdefault(\"n\", 1)", "lambda: SH_DICT.update(n = 1)", "lambda: SH_DICT.pop(\"s2\")",
				"lambda: SH_DICT.clear()", "lambda: SH_DICT.popitem()", "lambda: SH_SET.add(99)", "lambda: SH_SET.discard(1)", "lambda: SH_SET.clear()", "lambda: SH_SET.pop()",
				"lambda: SH_NEST[0].append(1)", "lambda: SH_NEST[1][\"k\"].append(1)", "lambda: SH_NEST[2][1].append(1)", "lambda: SH_TUP[3].append(1)",
				"lambda: SH_STRUCT.l.append(1)", "lambda: SH_STRUCT.d.update(b = 2)", "lambda: SH_DICT[\"s2\"].append(1)", "lambda: sh_fn(1, [1])", "lambda: SH_BOUND(7)"))
		case 7:
			line("    def m%d():", i)
			line("        " + pick("SH_LIST[0] = 1", "SH_DICT[\"s2\"] = 1", "SH_DICT[\"new\"] = 1", "l = SH_LIST\n        l += [1]", "d = SH_DICT\n        d |= {\"n\": 1}",
				"s = SH_SET\n        s |= SH_SET", "SH_NEST[0][0] = 1", "SH_LIST[3] += 1", "SH_DICT[\"s2\"] += [1]"))
			line("    t(\"sh\", attempt(m%d))", i)
		case 9:
			// failures whose message carries a spelling suggestion chosen among several equally near candidates
			line("    t(\"sh\", attempt(lambda: %s))", pick("SH_STR.xstrip()", "SH_LIST.apend(1)", "SH_LIST.inser(0, 1)", "SH_DICT.popx(1)", "SH_DICT.valuez()", "SH_SET.ad(1)",
				"SH_STRUCT.bigg", "SH_STRUCT.x", "struct(total_a = 1, total_b = 2, total_d = 3).total_c", "struct(ab = 1, ac = 2, ad = 3).aa", "SH_BYTES.elem()",
				"json.encod(1)", "json.decodee(\"1\")", "math.flor(1.5)", "math.cei(1.5)", "time.noww()", "sorted([], kee = 1)", "sorted([], revers = True)",
				"\"\".join(sepp = 1)", "SH_STR.split(sepx = 1)", "dict(a = 1).get(1, defaul = 2)", "SH_STR.isalphx()", "SH_STR.lstripp()", "SH_STR.rfindx(\"a\")",
				"getattr(SH_STR, \"formt\")", "getattr(SH_STRUCT, \"lx\")"))
		case 8:
			// mutation attempts alternating with iteration: under concurrency other threads are iterating the same values meanwhile
			line("    for r%d in range(%d):", i, 5+vk.Uniform(t, 30))
			line("        t(\"sh\", attempt(%s))", pick("lambda: SH_LIST.append(1)", "lambda: SH_DICT.update(n = 1)", "lambda: SH_SET.add(99)", "lambda: SH_DICT.clear()"))
			line("        c%d = len([e for e in %s])", i, pick("SH_LIST", "SH_DICT", "SH_SET"))
		}
	}
	line("    t(\"sh-final\", [SH_BIG, SH_NEG, SH_I64, SH_NI64, SH_SMALL, SH_FLOAT, SH_STR, SH_BYTES, SH_LIST[:10], len(SH_LIST), SH_NEST, len(SH_DICT), len(SH_SET), SH_TUP, sh_fn(0), sh_closure()])")
	line("    t(\"sh-final\", [SH_STRUCT, list(SH_DICT.items())[:4], SH_RANGE, SH_LIST[100:]])")
	line("    return 0")
	line("SH_OUT = sh_main()")
	return sb.String()
}

func genCase(t *rapid.T) Case {
	p := gen.Generate(t, gen.Config{MaxStmts: 25, ErrRate: 0.01})
	withDet := vk.Chance(t, 0.6)
	if vk.Chance(t, 0.6) || !withDet {
		p.Src += sharedSection(t)
	}
	if withDet {
		p.Src += detSection(t, p.Opts) // may end in a deliberate failure, hence last
	}
	return Case{Prog: p}
}

func TestPropDeterminism(t *testing.T) {
	defer func() {
		for _, w := range workers {
			w.Recycle()
		}
	}()
	vk.Rapid(t, subDet, vk.N(500, 2500), genCase)
}

func TestReplay(t *testing.T) {
	defer func() {
		for _, w := range workers {
			w.Recycle()
		}
	}()
	vk.Replay(t)
}
