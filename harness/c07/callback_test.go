package c07

// (callback) The host cancels the thread from inside a callback that the interpreter reaches
// without a call instruction: a method of a host value (attribute, index, operator, iteration,
// truth, hash, ...) or the Thread.Load hook. Once that callback has returned the thread must
// execute no further instruction: nothing after the triggering operation takes effect - no
// global is bound (not even the target of the triggering statement), no field of a host
// record is set, no host function is called - and the error names the host's reason.

import (
	"fmt"
	"strings"
	"testing"

	"go.starlark.net/starlark"
	"go.starlark.net/syntax"
	"verif/harness/host"
	"verif/harness/vk"
)

// probe is a host value every method of which cancels the thread (once).
type probe struct {
	th    *starlark.Thread
	armed bool
	fired string
}

func (p *probe) fire(where string) {
	if p.armed {
		p.armed = false
		p.fired = where
		p.th.Cancel("host-callback")
	}
}

func (p *probe) String() string        { p.fire("String"); return "probe" }
func (p *probe) Type() string          { return "probe" }
func (p *probe) Freeze()               {}
func (p *probe) Truth() starlark.Bool  { p.fire("Truth"); return true }
func (p *probe) Hash() (uint32, error) { p.fire("Hash"); return 7, nil }
func (p *probe) Attr(name string) (starlark.Value, error) {
	p.fire("Attr")
	return starlark.MakeInt(1), nil
}
func (p *probe) AttrNames() []string { return []string{"field"} }
func (p *probe) SetField(name string, v starlark.Value) error {
	p.fire("SetField")
	return nil
}
func (p *probe) Index(i int) starlark.Value { p.fire("Index"); return starlark.MakeInt(1) }
func (p *probe) Len() int                   { p.fire("Len"); return 2 }
func (p *probe) SetIndex(i int, v starlark.Value) error {
	p.fire("SetIndex")
	return nil
}
func (p *probe) Slice(start, end, step int) starlark.Value {
	p.fire("Slice")
	return starlark.Tuple{}
}
func (p *probe) Binary(op syntax.Token, y starlark.Value, side starlark.Side) (starlark.Value, error) {
	p.fire("Binary")
	if op == syntax.IN || op == syntax.NOT_IN {
		return starlark.True, nil
	}
	return starlark.MakeInt(1), nil
}
func (p *probe) Unary(op syntax.Token) (starlark.Value, error) {
	p.fire("Unary")
	return starlark.MakeInt(1), nil
}
func (p *probe) CompareSameType(op syntax.Token, y starlark.Value, depth int) (bool, error) {
	p.fire("Compare")
	return true, nil
}
func (p *probe) Iterate() starlark.Iterator {
	p.fire("Iterate")
	return starlark.Tuple{starlark.MakeInt(1), starlark.MakeInt(2)}.Iterate()
}
func (p *probe) Name() string { return "probe" }
func (p *probe) CallInternal(th *starlark.Thread, args starlark.Tuple, kwargs []starlark.Tuple) (starlark.Value, error) {
	p.fire("Call")
	return starlark.MakeInt(1), nil
}

type CallbackCase struct {
	Trigger string `json:"trigger"`
	Place   string `json:"place"` // top | def | lambda | comp | nested
}

var cbTriggers = map[string]string{
	"attr":        "V = P.field",
	"setfield":    "P.field = 1",
	"index":       "V = P[0]",
	"setindex":    "P[0] = 1",
	"slice":       "V = P[0:1]",
	"binary":      "V = P + 1",
	"rbinary":     "V = 1 + P",
	"aug":         "W = P\nW += 1",
	"unary":       "V = -P",
	"cmp":         "V = P < P",
	"eq":          "V = P == P",
	"in":          "V = 1 in P",
	"notin":       "V = 1 not in P",
	"not":         "V = not P",
	"and":         "V = P and 1",
	"cond":        "V = 1 if P else 2",
	"if":          "if P:\n    pass",
	"for":         "for E in P:\n    pass",
	"unpack":      "VA, VB = P",
	"comp":        "V = [E2 for E2 in P]",
	"comp-cond":   "V = [E3 for E3 in [1, 2] if P]",
	"star":        "V = ident(*P)",
	"dictkey":     "V = {P: 1}",
	"dictlookup":  "V = {7: 1}.get(P)",
	"format":      "V = \"%s\" % P",
	"strformat":   "V = \"{}\".format(P)",
	"str":         "V = str(P)",
	"len":         "V = len(P)",
	"call":        "V = P()",
	"sorted-key":  "V = sorted([2, 1], key = P)",
	"list":        "V = list(P)",
	"load":        "load(\"m.star\", \"x\")",
	"listcontain": "V = P in [P]",
}

func checkCallback(c CallbackCase) error {
	trig, ok := cbTriggers[c.Trigger]
	if !ok {
		return fmt.Errorf("unknown trigger")
	}
	indent := func(s, pad string) string { return pad + strings.ReplaceAll(s, "\n", "\n"+pad) }
	after := "R.after = 1\nAFTER1 = 1\nAFTER2 = [AFTER1] + [2]\nR.after2 = AFTER2\nt(\"after\", 1)\nAFTER3 = 3"
	var src string
	isLoad := c.Trigger == "load"
	switch c.Place {
	case "top":
		src = "t(\"before\", 0)\nBEFORE = 1\n" + trig + "\n" + after + "\n"
	case "def", "nested", "lambda", "comp":
		if isLoad {
			vk.S.Discard()
			return nil
		}
		// locals cannot be observed after the failure: inside functions the effects are writes to the host record
		body := strings.NewReplacer("V = ", "v = ", "VA, VB", "va, vb", "W = P", "w = P", "W += 1", "w += 1").Replace(trig)
		fn := "def f(x):\n" + indent(body, "    ") + "\n    R.after = 1\n    y = [x] + [2]\n    R.after2 = y\n    R.after3 = y[0]\n    return y\n"
		switch c.Place {
		case "def":
			src = fn + "t(\"before\", 0)\nBEFORE = 1\nAFTER1 = f(1)\nR.after4 = 1\nt(\"after\", 1)\n"
		case "nested":
			src = fn + "def g(x):\n    z = f(x)\n    R.after4 = z\n    return z\nt(\"before\", 0)\nBEFORE = 1\nAFTER1 = [g(q) for q in [1, 2]]\nt(\"after\", 1)\n"
		case "lambda":
			src = fn + "t(\"before\", 0)\nBEFORE = 1\nAFTER1 = (lambda a: f(a))(1)\nt(\"after\", 1)\n"
		case "comp":
			src = fn + "t(\"before\", 0)\nBEFORE = 1\nAFTER1 = sorted([3, 1, 2], key = f)\nt(\"after\", 1)\n"
		}
	default:
		return fmt.Errorf("unknown place")
	}
	tr := &host.Trace{}
	pre, th := host.Env(tr, "c07-callback")
	p := &probe{th: th, armed: !isLoad}
	rec := host.NewRec()
	pre["P"] = p
	pre["R"] = rec
	pre["ident"] = starlark.NewBuiltin("ident", func(_ *starlark.Thread, _ *starlark.Builtin, args starlark.Tuple, _ []starlark.Tuple) (starlark.Value, error) {
		return args, nil
	})
	loads := 0
	th.Load = func(t *starlark.Thread, module string) (starlark.StringDict, error) {
		loads++
		t.Cancel("host-callback")
		return starlark.StringDict{"x": starlark.MakeInt(1)}, nil
	}
	th.SetMaxExecutionSteps(100000)
	g, err := starlark.ExecFileOptions(&syntax.FileOptions{TopLevelControl: true, Set: true, GlobalReassign: true}, th, "cb.star", src, pre)
	what := fmt.Sprintf("trigger %q in %s", c.Trigger, c.Place)
	if _, isEval := err.(*starlark.EvalError); err != nil && !isEval {
		return fmt.Errorf("%s: template is statically invalid: %v\n%s", what, err, src)
	}
	if isLoad && loads != 1 || !isLoad && p.fired == "" {
		return fmt.Errorf("%s: the callback was not reached (template defect)\n%s", what, src)
	}
	if !isCancelled(err, "host-callback") {
		return fmt.Errorf("%s: cancelled inside %s, but the execution ended with err=%v\n%s", what, p.fired, err, src)
	}
	var late []string
	for _, n := range g.Keys() {
		if n != "BEFORE" && n != "f" && n != "g" && !(n == "W" && c.Trigger == "aug") {
			late = append(late, "global "+n)
		}
	}
	for _, n := range rec.Fields() {
		late = append(late, "R."+n)
	}
	for _, e := range tr.Events {
		if !strings.HasPrefix(e, "t:before") {
			late = append(late, "effect "+e)
		}
	}
	if len(late) > 0 {
		return fmt.Errorf("%s: instructions executed after the host cancelled the thread inside %s: %v\n%s", what, p.fired, late, src)
	}
	vk.S.Class("callback:" + p.fired + ":" + c.Place)
	vk.S.NonTrivial(c.Trigger + "|" + c.Place)
	return nil
}

var subCallback = vk.Register("callback", checkCallback)

func TestPropCancelInCallback(t *testing.T) {
	vk.S.SetExhaustive("cancel-in-host-callback-x-placement", true)
	vk.Enum(t, subCallback, func(yield func(CallbackCase) bool) {
		i := 0
		var names []string
		for n := range cbTriggers {
			names = append(names, n)
		}
		sortStrings(names)
		for _, trig := range names {
			for _, place := range []string{"top", "def", "nested", "lambda", "comp"} {
				i++
				if vk.Mine(i) && !yield(CallbackCase{trig, place}) {
					return
				}
			}
		}
	})
}

func sortStrings(s []string) {
	for i := 1; i < len(s); i++ {
		for j := i; j > 0 && s[j] < s[j-1]; j-- {
			s[j], s[j-1] = s[j-1], s[j]
		}
	}
}
