// C07: step limits and cancellation always stop execution.
package c07

import (
	"encoding/json"
	"errors"
	"fmt"
	"sort"
	"strings"
	"sync"
	"sync/atomic"
	"testing"
	"time"

	"go.starlark.net/starlark"
	"go.starlark.net/syntax"
	"pgregory.net/rapid"
	"verif/harness/gen"
	"verif/harness/host"
	"verif/harness/vk"
)

func TestMain(m *testing.M) {
	vk.Describe("(limits) generated terminating programs with host effects: a baseline run yields the step count S and the step stamp of every host effect; "+
		"for every limit N in a set (quick: 1, 2, every effect stamp and its neighbours, S-1, S, S+1 and random points; thorough: every N in [1, S+1] when S <= 3000) a fresh run with SetMaxExecutionSteps(N) "+
		"must fail iff N <= S with the cancellation message and reason 'too many steps', report ExecutionSteps() <= N, and perform exactly the baseline effects stamped < N; S must be identical on repeated runs. "+
		"(non-termination) while-True loops, unbounded recursion and an endless host iterable must fail for every tried N; unbounded recursion without a limit must fail with an error (checked in a child process). "+
		"(cancel) the k-th host call cancels the thread (once, twice with two reasons, or from another goroutine joined before it returns): no later effect, the first reason is named, "+
		"a re-execution on the thread fails at once without effects, and after Uncancel it runs as the baseline. (async) a goroutine cancels a tick loop at a drawn tick count: at most one further tick. "+
		"Non-trivial = the cut point falls strictly inside a nested call, comprehension or built-in callback (call depth >= 2 at the stamp) or between two effects of one statement; distinct by (program, N or k).",
		"step accounting: an effect performed by the built-in called at step k carries stamp k; limit N lets exactly the instructions with step < N execute",
		"asynchronous cancellation is sampled in time; 'promptly' is checked as 'at most one more host call after Cancel returns' and a 60 s bound on return")
	vk.Main(m, "C07")
}

// ---------------------------------------------------------------- environment with step stamps

type stamped struct {
	ev    string
	step  uint64
	depth int
}

type runResult struct {
	events []stamped
	steps  uint64
	err    error
}

type hooks struct {
	cancelAt  int      // cancel when the k-th (1-based) host effect happens; 0 = never
	reasons   []string // reasons to cancel with, in order
	fromOther bool     // call Cancel from another goroutine (joined before the built-in returns)
	onTick    func()
	extraPre  starlark.StringDict
	// at the k-th effect the host sets a new limit: current steps + budgetDelta
	budgetAt    int
	budgetDelta uint64
	onMaxSteps  func(*starlark.Thread)
}

func runOn(thread *starlark.Thread, p gen.Program, limit uint64, h hooks) runResult {
	tr := &host.Trace{Limit: 20000}
	pre, th := host.Env(tr, "c07")
	if thread != nil {
		thread.Print = th.Print
		th = thread
	}
	var res runResult
	n := 0
	tr.OnEvent = func(t *starlark.Thread, ev string) {
		res.events = append(res.events, stamped{ev, t.ExecutionSteps(), t.CallStackDepth()})
		n++
		if h.budgetAt > 0 && n == h.budgetAt {
			t.SetMaxExecutionSteps(t.ExecutionSteps() + h.budgetDelta)
		}
		if h.cancelAt > 0 && n == h.cancelAt {
			if h.fromOther {
				var wg sync.WaitGroup
				wg.Add(1)
				go func() {
					defer wg.Done()
					for _, r := range h.reasons {
						t.Cancel(r)
					}
				}()
				wg.Wait()
			} else {
				for _, r := range h.reasons {
					t.Cancel(r)
				}
			}
		}
	}
	for k, v := range h.extraPre {
		pre[k] = v
	}
	if limit > 0 {
		th.SetMaxExecutionSteps(limit)
	}
	if h.onMaxSteps != nil {
		th.OnMaxSteps = h.onMaxSteps
	}
	before := th.ExecutionSteps()
	_, err := starlark.ExecFileOptions(p.Opts.FileOptions(), th, "prog.star", p.Src, pre)
	res.err = err
	res.steps = th.ExecutionSteps() - before
	return res
}

func evs(es []stamped) []string {
	out := make([]string, len(es))
	for i, e := range es {
		out[i] = e.ev
	}
	return out
}

func isCancelled(err error, reason string) bool {
	return err != nil && strings.Contains(err.Error(), "Starlark computation cancelled: "+reason)
}

// ---------------------------------------------------------------- (a) limits

type LimitCase struct {
	Prog gen.Program `json:"prog"`
	All  bool        `json:"all"`            // every N in [1, S+1]
	Rand []int       `json:"rand,omitempty"` // extra cut points in permille of S
	Only []uint64    `json:"only,omitempty"` // replay: just these limits
}

const baselineCap = 200000

func checkLimits(c LimitCase) error {
	base := runOn(nil, c.Prog, baselineCap, hooks{})
	if isCancelled(base.err, "too many steps") {
		vk.S.Discard()
		return nil
	}
	S := base.steps
	// the step count is a function of the program
	for i := 0; i < 2; i++ {
		again := runOn(nil, c.Prog, baselineCap, hooks{})
		if again.steps != S {
			return fmt.Errorf("step count differs between runs: %d vs %d", S, again.steps)
		}
	}
	reused := &starlark.Thread{Name: "again"}
	if r := runOn(reused, c.Prog, 0, hooks{}); r.steps != S {
		return fmt.Errorf("step count differs on another thread: %d vs %d", S, r.steps)
	}
	limits := map[uint64]bool{}
	add := func(n uint64) {
		if n >= 1 && n <= S+1 {
			limits[n] = true
		}
	}
	switch {
	case len(c.Only) > 0:
		for _, n := range c.Only {
			add(n)
		}
	case c.All && S <= 3000:
		for n := uint64(1); n <= S+1; n++ {
			add(n)
		}
		vk.S.Class("limits:all-N")
	default:
		add(1)
		add(2)
		add(S - 1)
		add(S)
		add(S + 1)
		for _, e := range base.events {
			add(e.step - 1)
			add(e.step)
			add(e.step + 1)
		}
		for _, pm := range c.Rand {
			add(1 + uint64(pm)*S/1000)
		}
		// keep the quick tier bounded
		if len(limits) > 120 {
			for n := range limits {
				if n != 1 && n != S && n != S+1 && n != S-1 && n%3 != 0 {
					delete(limits, n) // a fixed arithmetic rule: independent of map iteration order
				}
			}
		}
		vk.S.Class("limits:sample")
	}
	baseFailed := base.err != nil
	var order []uint64
	for n := range limits {
		order = append(order, n)
	}
	sort.Slice(order, func(i, j int) bool { return order[i] < order[j] })
	for _, n := range order {
		r := runOn(nil, c.Prog, n, hooks{})
		var want []string
		cutDepth := 0
		for _, e := range base.events {
			if e.step < n {
				want = append(want, e.ev)
			} else if cutDepth == 0 {
				cutDepth = e.depth
			}
		}
		got := evs(r.events)
		key := fmt.Sprintf("N=%d S=%d", n, S)
		if n <= S {
			if !isCancelled(r.err, "too many steps") {
				return fmt.Errorf("%s: expected cancellation ('too many steps'), got err=%v", key, r.err)
			}
			if r.steps > n {
				return fmt.Errorf("%s: ExecutionSteps()=%d exceeds the limit", key, r.steps)
			}
		} else {
			if isCancelled(r.err, "") {
				return fmt.Errorf("%s: cancelled although the program needs only %d steps: %v", key, S, r.err)
			}
			if (r.err != nil) != baseFailed {
				return fmt.Errorf("%s: outcome differs from the unlimited run: %v vs %v", key, r.err, base.err)
			}
			if r.steps != S {
				return fmt.Errorf("%s: steps=%d, baseline %d", key, r.steps, S)
			}
		}
		if len(got) != len(want) {
			return fmt.Errorf("%s: %d effects performed, expected exactly the %d baseline effects stamped < N (got %v, want %v)", key, len(got), len(want), tail(got), tail(want))
		}
		for i := range got {
			if got[i] != want[i] {
				return fmt.Errorf("%s: effect %d is %q, expected %q", key, i, got[i], want[i])
			}
		}
		vk.S.ClassN("limit-points", 1)
		if n <= S && cutDepth >= 2 {
			vk.S.Class("cut-inside-nested-call")
			vk.S.NonTrivial(c.Prog.Src + key)
		}
	}
	vk.S.Sample("limits", "prog", map[string]any{"S": S, "effects": len(base.events), "limits": len(limits), "src": c.Prog.Src})
	return nil
}

func tail(s []string) []string {
	if len(s) > 4 {
		return s[len(s)-4:]
	}
	return s
}

var subLimits = vk.Register("limits", checkLimits)

func genProg(t *rapid.T) gen.Program {
	return gen.Generate(t, gen.Config{MaxStmts: 30, ErrRate: 0.005, NoLoad: true})
}

func TestPropLimits(t *testing.T) {
	vk.Rapid(t, subLimits, vk.N(250, 700), func(t *rapid.T) LimitCase {
		c := LimitCase{Prog: genProg(t), All: vk.Thorough()}
		for i := 0; i < 8; i++ {
			c.Rand = append(c.Rand, vk.Uniform(t, 1000))
		}
		return c
	})
}

// ---------------------------------------------------------------- (b) non-termination

type endless struct{}

func (endless) String() string             { return "endless" }
func (endless) Type() string               { return "endless" }
func (endless) Freeze()                    {}
func (endless) Truth() starlark.Bool       { return true }
func (endless) Hash() (uint32, error)      { return 0, fmt.Errorf("unhashable") }
func (endless) Iterate() starlark.Iterator { return &endlessIter{} }

type endlessIter struct{ n int }

func (it *endlessIter) Next(p *starlark.Value) bool { it.n++; *p = starlark.MakeInt(it.n); return true }
func (it *endlessIter) Done()                       {}

type LoopCase struct {
	Kind  string `json:"kind"`
	Limit uint64 `json:"limit"`
}

var loopSrc = map[string]string{
	"while":        "def f():\n    n = 0\n    while True:\n        n += 1\n        t(\"w\", n)\nf()\n",
	"while-top":    "n = [0]\nwhile True:\n    n[0] += 1\n",
	"while-pass":   "def f():\n    while True:\n        pass\nf()\n",
	"recursion":    "def f(n):\n    return f(n + 1)\nf(0)\n",
	"mutual":       "def f(n):\n    return g(n + 1)\ndef g(n):\n    return [f(x) for x in [n]][0]\nf(0)\n",
	"endless-for":  "def f():\n    for x in forever:\n        pass\nf()\n",
	"endless-comp": "x = [None for x in forever if False]\n",
	"callback":     "def k(x):\n    while True:\n        pass\nsorted([1, 2], key = k)\n",
}

func checkLoop(c LoopCase) error {
	src, ok := loopSrc[c.Kind]
	if !ok {
		return fmt.Errorf("unknown kind")
	}
	p := gen.Program{Src: src, Opts: gen.Opts{While: true, Recursion: true, TopLevelControl: true}}
	th := &starlark.Thread{Name: "loop"}
	done := make(chan runResult, 1)
	go func() { done <- runOn(th, p, c.Limit, hooks{extraPre: starlark.StringDict{"forever": endless{}}}) }()
	// The verdict does not depend on wall-clock speed: a watchdog samples the thread's step counter.
	// Counting beyond the limit is a violation at once; so is a computation that is still running although
	// its counter has not moved for two minutes (instructions executing without being counted).
	// Merely being slow (counter still advancing below the limit) is waited for, up to an hour, then inconclusive.
	var r runResult
	last, lastChange, start := uint64(0), time.Now(), time.Now()
wait:
	for {
		select {
		case r = <-done:
			break wait
		case <-time.After(200 * time.Millisecond):
			s := th.ExecutionSteps()
			if s > c.Limit+1 {
				return fmt.Errorf("non-terminating program with limit %d is still running at step %d", c.Limit, s)
			}
			if s != last {
				last, lastChange = s, time.Now()
			} else if time.Since(lastChange) > 120*time.Second {
				return fmt.Errorf("non-terminating program with limit %d: still running but the step counter has been stuck at %d for 120 s", c.Limit, s)
			}
			if time.Since(start) > time.Hour {
				vk.S.Timeout()
				return nil
			}
		}
	}
	if (c.Kind == "recursion" || c.Kind == "mutual") && r.err != nil && strings.Contains(r.err.Error(), "stack overflow") && r.steps <= c.Limit {
		// with a very large limit the frame-depth limit of unbounded recursion is reached first: also a clean failure
		vk.S.Class("loop:frame-limit-before-step-limit")
	} else if !isCancelled(r.err, "too many steps") {
		return fmt.Errorf("non-terminating program with limit %d: expected cancellation, got %v", c.Limit, r.err)
	}
	if r.steps > c.Limit {
		return fmt.Errorf("limit %d: ExecutionSteps()=%d", c.Limit, r.steps)
	}
	vk.S.Class("loop:" + c.Kind)
	vk.S.NonTrivial(fmt.Sprintf("%+v", c))
	return nil
}

var subLoop = vk.Register("nonterminating", checkLoop)

func TestPropNonTerminating(t *testing.T) {
	vk.S.SetExhaustive("nonterminating-kinds-x-limit-grid", true)
	vk.Enum(t, subLoop, func(yield func(LoopCase) bool) {
		i := 0
		kinds := []string{"while", "while-top", "while-pass", "recursion", "mutual", "endless-for", "endless-comp", "callback"}
		var limits []uint64
		for n := uint64(1); n <= 60; n++ {
			limits = append(limits, n)
		}
		limits = append(limits, 100, 101, 1000, 4097, 100000)
		if vk.Thorough() {
			limits = append(limits, 1000000, 5000000)
		}
		for _, k := range kinds {
			for _, n := range limits {
				i++
				if vk.Mine(i) {
					if !yield(LoopCase{k, n}) {
						return
					}
				}
			}
		}
	})
}

// Unbounded recursion without any step limit must end in an error, not in the death of the process.
type DeepCase struct {
	Kind string `json:"kind"`
}

type deepReply struct {
	Err string `json:"err"`
	OK  bool   `json:"ok"`
}

func deepRun(kind string) deepReply {
	p := gen.Program{Src: loopSrc[kind], Opts: gen.Opts{Recursion: true}}
	r := runOn(nil, p, 0, hooks{})
	if r.err == nil {
		return deepReply{"", true}
	}
	return deepReply{r.err.Error(), false}
}

var deepWorker = vk.NewWorker("c07-deep")

func checkDeep(c DeepCase) error {
	var rep deepReply
	err := deepWorker.Do(c, &rep, 300*time.Second)
	if err != nil {
		var d *vk.Death
		if errors.As(err, &d) {
			if d.Kind == "timeout" || d.Kind == "oom" {
				vk.S.Timeout()
				return nil
			}
			return fmt.Errorf("unbounded recursion (%s, recursion enabled, no step limit) killed the process: %v", c.Kind, err)
		}
		return err
	}
	if rep.OK {
		return fmt.Errorf("unbounded recursion returned normally")
	}
	vk.S.Class("deep:" + c.Kind)
	vk.S.NonTrivial("deep:" + c.Kind)
	return nil
}

var subDeep = vk.Register("unbounded-recursion", checkDeep)

func TestPropUnboundedRecursion(t *testing.T) {
	defer deepWorker.Recycle()
	if vk.Shard() != 0 {
		fmt.Println("SUBCHECK sub=unbounded-recursion requested=0 passed=0 wall=0.0s")
		return
	}
	vk.Enum(t, subDeep, func(yield func(DeepCase) bool) {
		for _, k := range []string{"recursion", "mutual"} {
			if !yield(DeepCase{k}) {
				return
			}
		}
	})
}

func TestWorker(t *testing.T) {
	if vk.WorkerKind() != "c07-deep" {
		t.Skip("not a worker")
	}
	vk.Serve(func(req json.RawMessage) any {
		var c DeepCase
		json.Unmarshal(req, &c)
		return deepRun(c.Kind)
	})
}

// ---------------------------------------------------------------- (c) cancellation at the k-th host call

type CancelCase struct {
	Prog      gen.Program `json:"prog"`
	K         int         `json:"k"` // permille position among baseline effects
	Two       bool        `json:"two"`
	FromOther bool        `json:"from_other"`
	// LimitDelta > 0: the thread also has a step limit that expires LimitDelta steps after the host's
	// cancellation, so both reasons compete; the host's, given first, must be the one reported.
	LimitDelta int `json:"limit_delta,omitempty"`
}

func checkCancel(c CancelCase) error {
	base := runOn(nil, c.Prog, baselineCap, hooks{})
	if isCancelled(base.err, "too many steps") || len(base.events) == 0 {
		vk.S.Discard()
		return nil
	}
	k := 1 + c.K*len(base.events)/1000
	if k > len(base.events) {
		k = len(base.events)
	}
	reasons := []string{"reason-ONE"}
	if c.Two {
		reasons = append(reasons, "reason-TWO")
	}
	th := &starlark.Thread{Name: "cancel"}
	var limit uint64
	if c.LimitDelta > 0 {
		limit = base.events[k-1].step + uint64(c.LimitDelta)
	}
	r := runOn(th, c.Prog, limit, hooks{cancelAt: k, reasons: reasons, fromOther: c.FromOther})
	key := fmt.Sprintf("k=%d of %d", k, len(base.events))
	if !isCancelled(r.err, "reason-ONE") {
		return fmt.Errorf("%s: expected cancellation naming the first reason, got %v", key, r.err)
	}
	if strings.Contains(r.err.Error(), "reason-TWO") {
		return fmt.Errorf("%s: error names the second reason: %v", key, r.err)
	}
	got, want := evs(r.events), evs(base.events[:k])
	if len(got) != len(want) {
		return fmt.Errorf("%s: %d effects after cancelling at effect %d (extra: %v)", key, len(got), k, tail(got))
	}
	for i := range got {
		if got[i] != want[i] {
			return fmt.Errorf("%s: effect %d is %q, expected %q", key, i, got[i], want[i])
		}
	}
	if strings.Contains(r.err.Error(), "too many steps") {
		return fmt.Errorf("%s: the step limit's reason replaced the host's earlier reason: %v", key, r.err)
	}
	// cancellation is sticky, and keeps naming the first reason however often the thread is re-used
	// (each attempt consumes a step, so a pending step limit expires during these attempts)
	for attempt := 0; attempt < 1+3*c.LimitDelta; attempt++ {
		r2 := runOn(th, c.Prog, 0, hooks{})
		if !isCancelled(r2.err, "reason-ONE") || len(r2.events) != 0 || strings.Contains(r2.err.Error(), "too many steps") {
			return fmt.Errorf("%s: re-execution %d on the cancelled thread: err=%v, %d effects (expected immediate cancellation naming the first reason)", key, attempt, r2.err, len(r2.events))
		}
	}
	th.SetMaxExecutionSteps(^uint64(0))
	th.Uncancel()
	r3 := runOn(th, c.Prog, 0, hooks{})
	if (r3.err != nil) != (base.err != nil) || len(r3.events) != len(base.events) {
		return fmt.Errorf("%s: after Uncancel the run differs from the baseline: err=%v (baseline %v), %d effects (baseline %d)", key, r3.err, base.err, len(r3.events), len(base.events))
	}
	if isCancelled(r3.err, "") {
		return fmt.Errorf("%s: still cancelled after Uncancel: %v", key, r3.err)
	}
	// A cancellation given after the reset is a new one: it stops the thread at once and names its own
	// first reason, not anything remembered from before the reset; same for one given in the middle of a
	// run and for a step limit that expires after the reset.
	th.Cancel("reason-THREE")
	th.Cancel("reason-FOUR")
	r4 := runOn(th, c.Prog, 0, hooks{})
	if !isCancelled(r4.err, "reason-THREE") || len(r4.events) != 0 || strings.Contains(r4.err.Error(), "reason-ONE") || strings.Contains(r4.err.Error(), "reason-FOUR") {
		return fmt.Errorf("%s: cancelled again after Uncancel with reason-THREE then reason-FOUR: err=%v, %d effects", key, r4.err, len(r4.events))
	}
	th.Uncancel()
	r5 := runOn(th, c.Prog, 0, hooks{cancelAt: k, reasons: []string{"reason-FIVE"}, fromOther: c.FromOther})
	if !isCancelled(r5.err, "reason-FIVE") || len(r5.events) != k {
		return fmt.Errorf("%s: cancelled at effect %d with reason-FIVE after two resets: err=%v, %d effects", key, k, r5.err, len(r5.events))
	}
	th.Uncancel()
	r6 := runOn(th, c.Prog, th.ExecutionSteps()+1, hooks{})
	if !isCancelled(r6.err, "too many steps") {
		return fmt.Errorf("%s: step limit expiring after the resets: err=%v (expected cancellation: too many steps)", key, r6.err)
	}
	th.SetMaxExecutionSteps(^uint64(0))
	th.Uncancel()
	if r7 := runOn(th, c.Prog, 0, hooks{}); (r7.err != nil) != (base.err != nil) || len(r7.events) != len(base.events) || isCancelled(r7.err, "") {
		return fmt.Errorf("%s: after the last Uncancel the run differs from the baseline: err=%v (baseline %v), %d effects (baseline %d)", key, r7.err, base.err, len(r7.events), len(base.events))
	}
	// an empty reason is a reason: the thread is cancelled, and stays so until reset
	th.Cancel("")
	if rE := runOn(th, c.Prog, 0, hooks{}); !isCancelled(rE.err, "") || len(rE.events) != 0 {
		return fmt.Errorf("%s: Cancel(\"\") then an execution: err=%v, %d effects (expected immediate cancellation)", key, rE.err, len(rE.events))
	}
	th.Cancel("reason-LATE")
	if rE := runOn(th, c.Prog, 0, hooks{}); !isCancelled(rE.err, "") || len(rE.events) != 0 || strings.Contains(rE.err.Error(), "reason-LATE") {
		return fmt.Errorf("%s: second execution after Cancel(\"\"): err=%v, %d effects", key, rE.err, len(rE.events))
	}
	th.Uncancel()
	// The host calls a built-in directly (no Starlark frame on the thread) and that built-in cancels the thread: the
	// call itself returns normally, and the cancellation is still in force for the next execution.
	canceller := starlark.NewBuiltin("cancel_now", func(t *starlark.Thread, _ *starlark.Builtin, _ starlark.Tuple, _ []starlark.Tuple) (starlark.Value, error) {
		t.Cancel("reason-SIX")
		return starlark.None, nil
	})
	if _, err := starlark.Call(th, canceller, nil, nil); err != nil {
		return fmt.Errorf("%s: a built-in called by the host that cancels the thread and returns normally: err=%v", key, err)
	}
	for attempt := 0; attempt < 2; attempt++ {
		r8 := runOn(th, c.Prog, 0, hooks{})
		if !isCancelled(r8.err, "reason-SIX") || len(r8.events) != 0 {
			return fmt.Errorf("%s: execution %d after a host-called built-in cancelled the thread: err=%v, %d effects (expected immediate cancellation)", key, attempt, r8.err, len(r8.events))
		}
	}
	th.Uncancel()
	if r9 := runOn(th, c.Prog, 0, hooks{}); (r9.err != nil) != (base.err != nil) || len(r9.events) != len(base.events) || isCancelled(r9.err, "") {
		return fmt.Errorf("%s: after the final Uncancel the run differs from the baseline: err=%v", key, r9.err)
	}
	vk.S.Class(fmt.Sprintf("cancel:two=%v,other=%v,limit=%v", c.Two, c.FromOther, c.LimitDelta > 0))
	if base.events[k-1].depth >= 2 {
		vk.S.Class("cancel-inside-nested-call")
		vk.S.NonTrivial(c.Prog.Src + key)
		vk.S.Sample("cancel", "nested", map[string]any{"k": k, "effects": len(base.events), "src": c.Prog.Src})
	}
	return nil
}

var subCancel = vk.Register("cancel", checkCancel)

func TestPropCancel(t *testing.T) {
	vk.Rapid(t, subCancel, vk.N(600, 6000), func(t *rapid.T) CancelCase {
		c := CancelCase{Prog: genProg(t), K: vk.Uniform(t, 1000), Two: vk.Chance(t, 0.5), FromOther: vk.Chance(t, 0.5)}
		if vk.Chance(t, 0.5) {
			c.LimitDelta = 1 + vk.Uniform(t, 4)
		}
		return c
	})
}

// ---------------------------------------------------------------- (c2) the limit is set or changed while the program runs; OnMaxSteps hook

type BudgetCase struct {
	Prog  gen.Program `json:"prog"`
	K     int         `json:"k"`     // permille position among baseline effects
	Delta uint64      `json:"delta"` // steps granted from that point
	Hook  bool        `json:"hook"`  // use Thread.OnMaxSteps (which cancels) instead of the default action
}

func checkBudget(c BudgetCase) error {
	base := runOn(nil, c.Prog, baselineCap, hooks{})
	if isCancelled(base.err, "too many steps") || len(base.events) == 0 {
		vk.S.Discard()
		return nil
	}
	S := base.steps
	k := 1 + c.K*len(base.events)/1000
	if k > len(base.events) {
		k = len(base.events)
	}
	N := base.events[k-1].step + c.Delta // the limit in force from effect k on
	h := hooks{budgetAt: k, budgetDelta: c.Delta}
	reason := "too many steps"
	hookCalls := 0
	if c.Hook {
		reason = "hook-limit"
		h.onMaxSteps = func(t *starlark.Thread) { hookCalls++; t.Cancel("hook-limit") }
	}
	th := &starlark.Thread{Name: "budget"}
	r := runOn(th, c.Prog, 0, h)
	key := fmt.Sprintf("limit %d set at effect %d (step %d) of a program of %d steps, hook=%v", N, k, base.events[k-1].step, S, c.Hook)
	var want []string
	for _, e := range base.events {
		if e.step < N {
			want = append(want, e.ev)
		}
	}
	got := evs(r.events)
	if N <= S {
		if !isCancelled(r.err, reason) {
			return fmt.Errorf("%s: expected cancellation (%s), got %v after %d steps", key, reason, r.err, r.steps)
		}
		if r.steps > N {
			return fmt.Errorf("%s: ExecutionSteps()=%d exceeds the limit", key, r.steps)
		}
	} else if isCancelled(r.err, "") {
		return fmt.Errorf("%s: cancelled although the limit was not reached: %v", key, r.err)
	}
	if len(got) != len(want) {
		return fmt.Errorf("%s: %d effects performed, expected exactly the %d baseline effects stamped below the limit (last: %v)", key, len(got), len(want), tail(got))
	}
	for i := range got {
		if got[i] != want[i] {
			return fmt.Errorf("%s: effect %d is %q, expected %q", key, i, got[i], want[i])
		}
	}
	if N <= S {
		// The thread has used up its budget: after Uncancel (the counter is not reset) any further execution
		// must be stopped again at once, with the hook or without.
		th.Uncancel()
		r2 := runOn(th, c.Prog, 0, hooks{})
		if !isCancelled(r2.err, reason) || len(r2.events) != 0 {
			return fmt.Errorf("%s: re-execution on the exhausted thread after Uncancel: err=%v, %d effects (expected immediate cancellation)", key, r2.err, len(r2.events))
		}
		// A lower limit set on a thread that is already beyond it stops it as well.
		th.Uncancel()
		th.SetMaxExecutionSteps(th.ExecutionSteps() / 2)
		r3 := runOn(th, c.Prog, 0, hooks{})
		if !isCancelled(r3.err, reason) || len(r3.events) != 0 {
			return fmt.Errorf("%s: execution on a thread already beyond a newly set limit: err=%v, %d effects (expected immediate cancellation)", key, r3.err, len(r3.events))
		}
		// and with the limit lifted it runs normally
		th.Uncancel()
		th.SetMaxExecutionSteps(^uint64(0))
		r4 := runOn(th, c.Prog, 0, hooks{})
		if (r4.err != nil) != (base.err != nil) || len(r4.events) != len(base.events) || isCancelled(r4.err, "") {
			return fmt.Errorf("%s: after lifting the limit the run differs from the baseline: err=%v, %d effects", key, r4.err, len(r4.events))
		}
	}
	vk.S.Class(fmt.Sprintf("budget:hook=%v,hit=%v", c.Hook, N <= S))
	if N <= S && base.events[k-1].depth >= 2 {
		vk.S.NonTrivial(c.Prog.Src + key)
	}
	return nil
}

var subBudget = vk.Register("budget-midrun", checkBudget)

func TestPropBudget(t *testing.T) {
	vk.Rapid(t, subBudget, vk.N(500, 5000), func(t *rapid.T) BudgetCase {
		return BudgetCase{Prog: genProg(t), K: vk.Uniform(t, 1000), Delta: uint64([]int{1, 2, 3, 5, 10, 30, 100, 1000}[vk.Uniform(t, 8)]), Hook: vk.Chance(t, 0.5)}
	})
}

// ---------------------------------------------------------------- (d) asynchronous cancellation

type AsyncCase struct {
	Target int    `json:"target"` // cancel once this many ticks have happened
	Shape  string `json:"shape"`
}

var asyncSrc = map[string]string{
	"while":    "def f():\n    while True:\n        tick()\nf()\n",
	"nested":   "def g():\n    tick()\n    return 1\ndef f():\n    while True:\n        [g() for _ in range(3)]\nf()\n",
	"callback": "def k(x):\n    tick()\n    return x\ndef f():\n    while True:\n        sorted([3, 1, 2], key = k)\nf()\n",
}

func checkAsync(c AsyncCase) error {
	src, ok := asyncSrc[c.Shape]
	if !ok {
		return fmt.Errorf("unknown shape")
	}
	var ticks atomic.Int64
	var afterCancel atomic.Int64
	afterCancel.Store(-1)
	thread := &starlark.Thread{Name: "async"}
	pre := starlark.StringDict{"tick": starlark.NewBuiltin("tick", func(th *starlark.Thread, b *starlark.Builtin, args starlark.Tuple, kwargs []starlark.Tuple) (starlark.Value, error) {
		ticks.Add(1)
		return starlark.None, nil
	})}
	stop := make(chan struct{})
	go func() {
		for ticks.Load() < int64(c.Target) {
			select {
			case <-stop:
				return
			default:
			}
		}
		thread.Cancel("async-stop")
		afterCancel.Store(ticks.Load())
	}()
	done := make(chan error, 1)
	go func() {
		_, err := starlark.ExecFileOptions(&syntax.FileOptions{While: true}, thread, "async.star", src, pre)
		done <- err
	}()
	select {
	case err := <-done:
		close(stop)
		if !isCancelled(err, "async-stop") {
			return fmt.Errorf("expected cancellation, got %v", err)
		}
	case <-time.After(600 * time.Second):
		return fmt.Errorf("thread did not stop within 600 s of Cancel (ticks=%d)", ticks.Load())
	}
	// afterCancel is set right after Cancel returned; wait for the canceller to publish it
	for i := 0; afterCancel.Load() < 0 && i < 1000000; i++ {
		time.Sleep(time.Microsecond)
	}
	T, final := afterCancel.Load(), ticks.Load()
	if T >= 0 && final > T+1 {
		return fmt.Errorf("%d host calls happened after Cancel returned (ticks when Cancel returned: %d, final: %d)", final-T, T, final)
	}
	vk.S.Class("async:" + c.Shape)
	vk.S.NonTrivial(fmt.Sprintf("%+v", c))
	return nil
}

var subAsync = vk.Register("async-cancel", checkAsync)

func TestPropAsync(t *testing.T) {
	vk.Rapid(t, subAsync, vk.N(150, 1500), func(t *rapid.T) AsyncCase {
		return AsyncCase{Target: 1 + vk.Uniform(t, 5000), Shape: []string{"while", "nested", "callback"}[vk.Uniform(t, 3)]}
	})
}

func TestReplay(t *testing.T) {
	defer deepWorker.Recycle()
	vk.Replay(t)
}
