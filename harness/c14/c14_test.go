// C14: parsing is faithful to the grammar.
//
// Sub-check "roundtrip": an IR tree (own types, ir_test.go) is rendered under
// a drawn layout (render_test.go); FileOptions.Parse of the text, converted
// back to the IR without ParenExpr (conv_test.go), must equal the tree -
// kinds, operators, nesting, names, literal values - and every node must be
// reported at the (line, col) where the renderer put its first token; the
// minimal re-rendering of the returned tree must have the input's tokens up to
// redundant parentheses, optional commas and statement separators.
//
// Sub-check "text": any text (one-token mutations of valid texts, hand-listed
// rejections) is classified by a reference parser written from the spec
// (reflex_test.go, refparse_test.go): accept => same tree, same positions,
// token round trip; reject => Parse or resolve.File reports an error whose
// position lies inside the text; unsure (spec silent) => token round trip only.
package c14

import (
	"errors"
	"fmt"
	"strings"
	"testing"
	"unicode/utf8"

	"go.starlark.net/resolve"
	"go.starlark.net/syntax"
	"pgregory.net/rapid"
	"verif/harness/vk"
)

func TestMain(m *testing.M) {
	vk.Describe("IR trees to depth 6 over every expression and statement form are rendered with drawn spacing, comments, blank lines, continuations, "+
		"bracket line breaks, trailing commas, semicolons, one-line suites, indentation strings, LF/CRLF/CR and minimal or redundant parentheses; "+
		"the parsed tree must equal the IR (literal values exact) with every node at its recorded rune position, and re-render to the same tokens. "+
		"One-token mutations (delete/duplicate/swap/replace/unparenthesise, including NEWLINE/INDENT/OUTDENT) are judged by an independent reference parser. "+
		"Non-trivial = the tree has >=2 different binary precedence levels or a unary/conditional/lambda under a binary operator, and the layout really used "+
		">=2 of {comment, continuation, bracket line break, semicolon, CRLF, tab indentation}; for mutations = the reference parser reached a verdict. Distinct by text.",
		"'not' binds between 'and' and the comparisons; + - ~ apply to a primary expression; conditional and lambda are never operands without parentheses (Python 3 reading of the ambiguous grammar)",
		"a tab in indentation advances to the next multiple of 8; only indentation strings on which every tab convention agrees, or a single tab within the first 8 columns, are generated",
		"not generated (spec silent or at odds with the implementation): octal/hex escapes above 127 in text strings, \\<quote> in raw strings, int literals like 00, out-of-range floats, a[1,]",
		"an escape that names a surrogate code point (all 2048 x \\u/\\U x text/bytes, exhaustive) must be rejected with an error positioned inside the literal, or keep exactly that code point; it may not silently become another string",
		"bytes literals, the rb prefix and \\u \\U escapes follow the package documentation and the property text; doc/spec.md does not describe them",
		"rejection of ungrammatical text rests on the hand-written reference parser and on one-token mutations")
	vk.Main(m, "C14")
}

var fileOpts = &syntax.FileOptions{Set: true, While: true, TopLevelControl: true, GlobalReassign: true, Recursion: true}

// ---------------------------------------------------------------- token round trip (oracle b)

func tokKey(t Tok) string {
	switch t.K {
	case "int", "float", "str", "bytes":
		return t.K + "=" + t.V
	}
	return t.K + ":" + t.S
}

// normalise maps a token sequence to its form modulo redundant (grouping)
// parentheses, optional trailing commas and statement separators.
func normalise(toks []Tok) ([]string, error) {
	type item struct {
		key   string
		drop  bool
		depth int
	}
	var items []item
	for _, t := range toks {
		switch {
		case t.K == "indent" || t.K == "outdent":
		case t.K == "nl" || t.K == "op" && t.S == ";":
			items = append(items, item{key: "SEP"})
		default:
			items = append(items, item{key: tokKey(t)})
		}
	}
	type open struct {
		idx       int
		callish   bool
		commas    int
		lastComma int // index of the last top-level comma, -1 if none
		lastItem  int // index of the last top-level item
		colons    int // top-level slice colons
		inLambda  int // open lambda parameter lists at this level
		lastColon int
	}
	stack := []open{{idx: -1, lastComma: -1, lastItem: -1, lastColon: -1}}
	prevKey := ""
	for i := range items {
		k := items[i].key
		items[i].depth = len(stack) - 1
		if k != "SEP" {
			top := &stack[len(stack)-1]
			switch k {
			case "op:)", "op:]", "op:}":
			default:
				top.lastItem = i
				switch k {
				case "op:,":
					if top.inLambda == 0 { // commas of a lambda's parameter list are not the bracket's
						top.commas++
						top.lastComma = i
					}
				case "op::":
					if top.inLambda > 0 {
						top.inLambda--
					} else {
						top.colons++
						top.lastColon = i
					}
				case "kw:lambda":
					top.inLambda++
				}
			}
		}
		switch k {
		case "op:(", "op:[", "op:{":
			callish := false
			switch {
			case strings.HasPrefix(prevKey, "id:"), strings.HasPrefix(prevKey, "int="), strings.HasPrefix(prevKey, "float="),
				strings.HasPrefix(prevKey, "str="), strings.HasPrefix(prevKey, "bytes="),
				prevKey == "op:)", prevKey == "op:]", prevKey == "op:}", prevKey == "kw:load":
				callish = true
			}
			stack = append(stack, open{idx: i, callish: callish, lastComma: -1, lastItem: -1, lastColon: -1})
		case "op:)", "op:]", "op:}":
			if len(stack) == 1 {
				return nil, fmt.Errorf("unbalanced %s", k)
			}
			o := stack[len(stack)-1]
			stack = stack[:len(stack)-1]
			items[i].depth = len(stack) - 1
			if items[o.idx].key[3] != map[byte]byte{')': '(', ']': '[', '}': '{'}[k[3]] {
				return nil, fmt.Errorf("mismatched brackets %s %s", items[o.idx].key, k)
			}
			trailing := o.lastComma >= 0 && o.lastComma == o.lastItem
			empty := o.lastItem < 0
			grouping := k == "op:)" && !o.callish
			if trailing && (!grouping || o.commas >= 2) {
				items[o.lastComma].drop = true
			}
			if k == "op:]" && o.colons == 2 && o.lastColon == o.lastItem {
				items[o.lastColon].drop = true // x[a:b:] is x[a:b]
			}
			if grouping && !empty {
				items[o.idx].drop = true
				items[i].drop = true
			}
			stack[len(stack)-1].lastItem = i
		}
		prevKey = k
	}
	if len(stack) != 1 {
		return nil, fmt.Errorf("unclosed bracket")
	}
	var out []string
	lastColon0 := false
	for _, it := range items {
		if it.drop {
			continue
		}
		if it.key == "SEP" {
			if it.depth > 0 || len(out) == 0 || out[len(out)-1] == "SEP" || lastColon0 {
				continue
			}
		}
		out = append(out, it.key)
		lastColon0 = it.key == "op::" && it.depth == 0
	}
	for len(out) > 0 && out[len(out)-1] == "SEP" {
		out = out[:len(out)-1]
	}
	return out, nil
}

// tokenRoundTrip: the minimal rendering of the tree the parser returned has
// the tokens of the input.
func tokenRoundTrip(input []Tok, got *N) error {
	_, ctoks := canonical(got)
	a, err := normalise(input)
	if err != nil {
		return fmt.Errorf("accepted text has %v", err)
	}
	b, err := normalise(ctoks)
	if err != nil {
		return fmt.Errorf("re-rendered tree has %v", err)
	}
	for i := 0; i < len(a) || i < len(b); i++ {
		var x, y string
		if i < len(a) {
			x = a[i]
		}
		if i < len(b) {
			y = b[i]
		}
		if x != y {
			return fmt.Errorf("token %d of the input is %q but the returned tree has %q there (tokens dropped or invented)", i, x, y)
		}
	}
	return nil
}

// ---------------------------------------------------------------- implementation under test

func parseImpl(text string, retain bool) (*N, *syntax.File, error) {
	var mode syntax.Mode
	if retain {
		mode = syntax.RetainComments
	}
	f, err := fileOpts.Parse("c14.star", text, mode)
	if err != nil {
		return nil, nil, err
	}
	if f == nil {
		return nil, nil, fmt.Errorf("Parse returned neither a file nor an error")
	}
	return convFile(f), f, nil
}

func yes(string) bool { return true }

// physicalLines returns the rune length of each line of text (LF, CRLF, CR end a line).
func physicalLines(text string) []int {
	var out []int
	n := 0
	rs := []rune(text)
	for i := 0; i < len(rs); i++ {
		switch rs[i] {
		case '\r':
			if i+1 < len(rs) && rs[i+1] == '\n' {
				i++
			}
			out = append(out, n)
			n = 0
		case '\n':
			out = append(out, n)
			n = 0
		default:
			n++
		}
	}
	return append(out, n)
}

// insideText checks that a rejection is positioned within the text.
func insideText(err error, text string) error {
	var pos syntax.Position
	var se syntax.Error
	var rl resolve.ErrorList
	switch {
	case errors.As(err, &se):
		pos = se.Pos
	case errors.As(err, &rl) && len(rl) > 0:
		pos = rl[0].Pos
	default:
		return fmt.Errorf("rejection is not a positioned syntax.Error or resolve.ErrorList: %T %v", err, err)
	}
	if strings.HasPrefix(err.Error(), "c14.star") && strings.Contains(err.Error(), "internal error") {
		return fmt.Errorf("parser reports an internal error: %v", err)
	}
	lines := physicalLines(text)
	l, c := int(pos.Line), int(pos.Col)
	if l < 1 || l > len(lines) || c < 1 || c > lines[l-1]+1 {
		return fmt.Errorf("error position %d:%d is outside the text (%d lines; that line has %d runes): %v", l, c, len(lines), lineLen(lines, l), err)
	}
	return nil
}

func lineLen(lines []int, l int) int {
	if l >= 1 && l <= len(lines) {
		return lines[l-1]
	}
	return -1
}

// ---------------------------------------------------------------- sub-check roundtrip

type RTCase struct {
	Tree *N     `json:"tree"`
	L    Layout `json:"layout"`
}

func sameToks(want, got []Tok) error {
	for i := 0; i < len(want) || i < len(got); i++ {
		if i >= len(want) || i >= len(got) {
			return fmt.Errorf("token counts differ: rendered %d, reference lexer %d", len(want), len(got))
		}
		w, g := want[i], got[i]
		if w.K != g.K || w.S != g.S || w.V != g.V {
			return fmt.Errorf("token %d: rendered %s %q (%s), reference lexer %s %q (%s)", i, w.K, w.S, w.V, g.K, g.S, g.V)
		}
		if w.K != "nl" && w.K != "indent" && w.K != "outdent" && (w.Line != g.Line || w.Col != g.Col) {
			return fmt.Errorf("token %d %q: rendered at %d:%d, reference lexer says %d:%d", i, w.S, w.Line, w.Col, g.Line, g.Col)
		}
	}
	return nil
}

// shape classifies a tree for the non-triviality rule and the histogram.
type shape struct {
	levels   map[int]bool
	underBin bool // unary, conditional or lambda directly under a binary operator
	kinds    map[string]bool
}

func shapeOf(tree *N) shape {
	s := shape{levels: map[int]bool{}, kinds: map[string]bool{}}
	walk(tree, func(n *N) {
		s.kinds[n.K] = true
		if n.K == "bin" {
			s.levels[binPrec(n.Op)] = true
			for _, c := range n.A {
				if c != nil && (c.K == "un" || c.K == "cond" || c.K == "lambda") {
					s.underBin = true
				}
			}
		}
	})
	return s
}

func (s shape) interesting() bool { return len(s.levels) >= 2 || s.underBin }

func checkRoundTrip(c RTCase) error {
	if c.Tree == nil || c.Tree.K != "file" {
		return fmt.Errorf("malformed case")
	}
	if err := valid(c.Tree); err != nil {
		return err
	}
	text, want, toks, use := render(c.Tree, c.L)

	// The harness checks itself: the reference parser must read the rendering back.
	rt, rtoks, unsure, rerr := refParse(text)
	if rerr != nil || unsure != "" {
		return fmt.Errorf("harness: reference parser does not accept the rendering (%v, unsure=%q):\n%s", rerr, unsure, text)
	}
	if err := sameToks(toks, rtoks); err != nil {
		return fmt.Errorf("harness: %v\n%s", err, text)
	}
	if err := diff(want, rt, "", true); err != nil {
		return fmt.Errorf("harness: reference parser disagrees with the renderer: %v\n%s", err, text)
	}

	got, _, err := parseImpl(text, c.L.Retain)
	if err != nil {
		return knownRT(fmt.Errorf("valid text rejected: %v\n%s", err, text), text, err)
	}
	if err := diff(want, got, "", false); err != nil {
		return fmt.Errorf("parsed tree differs: %v\n%s", err, text)
	}
	if err := diff(want, got, "", true); err != nil {
		return fmt.Errorf("position: %v\n%s", err, text)
	}
	if err := tokenRoundTrip(toks, got); err != nil {
		return fmt.Errorf("%v\n%s", err, text)
	}
	if err := checkParseExpr(want, toks, text); err != nil {
		return err
	}

	s := shapeOf(c.Tree)
	classifyTree(s)
	classifyLayout(c.L, use)
	if s.interesting() && use.count() >= 2 {
		vk.S.NonTrivial(text)
		vk.S.Sample("roundtrip", "nontrivial", map[string]any{"text": text})
	}
	return nil
}

// checkParseExpr: a file that is one expression statement is also an input of ParseExpr.
func checkParseExpr(want *N, toks []Tok, text string) error {
	if len(want.B) != 1 || want.B[0].K != "expr" {
		return nil
	}
	for _, t := range toks {
		if t.K == "op" && t.S == ";" {
			return nil
		}
	}
	x, err := fileOpts.ParseExpr("c14.star", text, 0)
	if err != nil {
		return fmt.Errorf("ParseExpr rejects a valid expression: %v\n%s", err, text)
	}
	if err := diff(want.B[0].A[0], convExpr(x), "/ParseExpr", true); err != nil {
		return fmt.Errorf("ParseExpr: %v\n%s", err, text)
	}
	vk.S.Class("api:ParseExpr")
	return nil
}

// knownRT maps failures to catalogued findings (none so far).
func knownRT(err error, text string, cause error) error { return err }

func classifyTree(s shape) {
	for _, k := range []string{"bin", "un", "cond", "lambda", "tuple", "list", "dict", "lcomp", "dcomp", "dot", "index", "slice", "call",
		"int", "float", "str", "bytes", "def", "if", "for", "while", "load", "assign", "return", "named", "star", "sstar", "pdef", "pstar", "pargs", "pkw"} {
		if s.kinds[k] {
			vk.S.Class("has:" + k)
		}
	}
	vk.S.Class(fmt.Sprintf("binary-levels:%d", min(len(s.levels), 4)))
	if s.underBin {
		vk.S.Class("unary/cond/lambda-under-binary")
	}
}

func classifyLayout(L Layout, u usage) {
	for name, b := range map[string]bool{"comment": u.comment, "continuation": u.cont, "bracket-newline": u.brknl, "semicolon": u.semi,
		"crlf": u.crlf, "tab-indent": u.tabindent, "cr-only": L.EOL == 2, "redundant-parens": L.Parens > 0, "no-final-newline": L.NoFinalNL} {
		if b {
			vk.S.Class("layout:" + name)
		}
	}
}

var subRT = vk.Register("roundtrip", checkRoundTrip)

// ---------------------------------------------------------------- sub-check text

type TextCase struct {
	Text   string `json:"text"`
	Origin string `json:"origin,omitempty"`
	Expect string `json:"expect,omitempty"` // accept | reject: what the spec says, for hand-listed texts
}

func checkText(c TextCase) error {
	err := checkTextInner(c)
	if err != nil && nulEndsFile(c.Text) {
		return vk.Known("C14-nul-byte-ends-file", err)
	}
	return err
}

// nulEndsFile recognises finding C14-nul-byte-ends-file: the text has a NUL
// byte and the parser behaves exactly as if the file ended there (same tree,
// or an error in both cases).
func nulEndsFile(text string) bool {
	if !strings.Contains(text, "\x00") {
		return false
	}
	full, _, ferr := parseImpl(text, false)
	for i := 0; i < len(text); i++ {
		if text[i] != 0 {
			continue
		}
		cut, _, cerr := parseImpl(text[:i], false)
		if (ferr != nil) == (cerr != nil) && (ferr != nil || canon(full) == canon(cut)) {
			return true
		}
	}
	return false
}

func checkTextInner(c TextCase) error {
	text := c.Text
	if !utf8.ValidString(text) {
		// a module is a UTF-8 encoded file (spec); other inputs only have to be survived
		parseImpl(text, false)
		vk.S.Class("text:not-utf8")
		return nil
	}
	rt, rtoks, unsure, rerr := refParse(text)
	verdict := "accept"
	switch {
	case unsure != "":
		verdict = "unsure"
	case rerr != nil:
		verdict = "reject"
	}
	if c.Expect != "" && c.Expect != verdict {
		return fmt.Errorf("harness: reference parser says %s (%v %s) for a text the spec makes %s:\n%s", verdict, rerr, unsure, c.Expect, text)
	}
	got, f, perr := parseImpl(text, false)
	origin := c.Origin
	if origin == "" {
		origin = "listed"
	}
	vk.S.Class("text:" + origin + "/" + verdict)
	switch verdict {
	case "accept":
		if perr != nil {
			return fmt.Errorf("text generated by the grammar is rejected: %v\n%s", perr, text)
		}
		if err := diff(rt, got, "", false); err != nil {
			return fmt.Errorf("parsed tree differs from the reference parse: %v\n%s", err, text)
		}
		if err := diff(rt, got, "", true); err != nil {
			return fmt.Errorf("position: %v\n%s", err, text)
		}
		if err := tokenRoundTrip(rtoks, got); err != nil {
			return fmt.Errorf("%v\n%s", err, text)
		}
	case "reject":
		if perr == nil {
			rserr := resolve.File(f, yes, yes)
			if rserr == nil {
				return fmt.Errorf("text outside the grammar (%v) is accepted by Parse and resolve.File; parsed as %s\n%s", rerr, short(got), text)
			}
			vk.S.Class("reject-by:resolver")
			vk.S.Sample("text", "rejected-by-resolver-only", map[string]any{"text": text, "ref": rerr.Error(), "resolver": rserr.Error()})
			perr = rserr
		} else {
			vk.S.Class("reject-by:parser")
		}
		if err := insideText(perr, text); err != nil {
			return fmt.Errorf("%v\n%s", err, text)
		}
	default:
		if perr == nil {
			if err := tokenRoundTrip(rtoks, got); err != nil && rerr == nil {
				return fmt.Errorf("%v\n%s", err, text)
			}
		} else if err := insideText(perr, text); err != nil {
			return fmt.Errorf("%v\n%s", err, text)
		}
	}
	if verdict != "unsure" {
		vk.S.NonTrivial(text)
		vk.S.Sample("text", origin+"/"+verdict, c)
	}
	return nil
}

var subText = vk.Register("text", checkText)

// ---------------------------------------------------------------- generators: random trees

func TestPropTrees(t *testing.T) {
	vk.Rapid(t, subRT, vk.N(2500, 20000), func(t *rapid.T) RTCase {
		return RTCase{Tree: genFile(t, 30+vk.Uniform(t, 60)), L: genLayout(t)}
	})
}

// Literal-heavy files: every spelling family, one literal per statement.
func TestPropLiterals(t *testing.T) {
	vk.Rapid(t, subRT, vk.N(1500, 12000), func(t *rapid.T) RTCase {
		g := &gen{t: t, budget: 1000}
		f := &N{K: "file"}
		for k := 1 + vk.Uniform(t, 5); k > 0; k-- {
			var x *N
			switch vk.Uniform(t, 4) {
			case 0:
				x = genInt(t)
			case 1:
				x = genFloat(t)
			case 2:
				x = genStringLit(t, false, g.eol)
			default:
				x = genStringLit(t, true, g.eol)
			}
			switch vk.Uniform(t, 4) {
			case 0:
				f.B = append(f.B, &N{K: "expr", A: []*N{x}})
			case 1:
				f.B = append(f.B, &N{K: "assign", Op: "=", A: []*N{g.id(), &N{K: "un", Op: "-", A: []*N{x}}}})
			case 2:
				f.B = append(f.B, &N{K: "expr", A: []*N{{K: "dot", A: []*N{x, g.id()}}}})
			default:
				f.B = append(f.B, &N{K: "assign", Op: "=", A: []*N{g.id(), {K: "list", A: []*N{x, genInt(t), x}}}})
			}
		}
		L := genLayout(t)
		return RTCase{Tree: f, L: L}
	})
}

// ---------------------------------------------------------------- generators: exhaustive operator pairs

func idn(s string) *N { return &N{K: "id", Name: s} }

// operatorShapes enumerates: every ordered pair of binary operators in both
// nestings; every unary operator over, left of and right of every binary
// operator and over the other unaries; conditional and lambda in every
// operand position.
func operatorShapes() []*N {
	var out []*N
	a, b, c := idn("a"), idn("b"), idn("c")
	bin := func(op string, x, y *N) *N { return &N{K: "bin", Op: op, A: []*N{x, y}} }
	un := func(op string, x *N) *N { return &N{K: "un", Op: op, A: []*N{x}} }
	cond := func(x, y, z *N) *N { return &N{K: "cond", A: []*N{x, y, z}} }
	lam := func(x *N) *N { return &N{K: "lambda", A: []*N{idn("p"), x}} }
	for _, o1 := range binOps {
		for _, o2 := range binOps {
			out = append(out, bin(o1, bin(o2, a, b), c), bin(o1, a, bin(o2, b, c)))
		}
	}
	unops := []string{"-", "+", "~", "not"}
	for _, u := range unops {
		for _, o := range binOps {
			out = append(out, un(u, bin(o, a, b)), bin(o, un(u, a), b), bin(o, a, un(u, b)))
		}
		for _, u2 := range unops {
			out = append(out, un(u, un(u2, a)))
		}
		out = append(out, un(u, cond(a, b, c)), un(u, lam(a)), cond(un(u, a), un(u, b), un(u, c)), lam(un(u, a)),
			un(u, &N{K: "dot", A: []*N{a, idn("f")}}), &N{K: "dot", A: []*N{un(u, a), idn("f")}},
			un(u, &N{K: "call", A: []*N{a, b}}), &N{K: "call", A: []*N{un(u, a), b}},
			un(u, &N{K: "index", A: []*N{a, b}}), &N{K: "index", A: []*N{un(u, a), un(u, b)}},
			un(u, &N{K: "tuple", A: []*N{a, b}}), &N{K: "tuple", A: []*N{un(u, a), b}})
	}
	for _, o := range binOps {
		out = append(out, bin(o, cond(a, b, c), a), bin(o, a, cond(a, b, c)), cond(bin(o, a, b), bin(o, b, c), bin(o, c, a)),
			bin(o, lam(a), b), bin(o, a, lam(b)), lam(bin(o, a, b)))
	}
	x := idn("x")
	out = append(out,
		cond(cond(a, b, c), x, x), cond(x, cond(a, b, c), x), cond(x, x, cond(a, b, c)),
		cond(lam(a), x, x), cond(x, lam(a), x), cond(x, x, lam(a)),
		lam(cond(a, b, c)), lam(lam(a)), lam(&N{K: "tuple", A: []*N{a, b}}),
		cond(&N{K: "tuple", A: []*N{a, b}}, x, x), cond(x, x, &N{K: "tuple", A: []*N{a}}))
	// comprehension clause operands
	for _, e := range []*N{cond(a, b, c), lam(a), lam(cond(a, b, c)), &N{K: "tuple", A: []*N{a, b}}, bin("or", a, b), un("not", a), bin("in", a, b), lam(lam(cond(a, b, c)))} {
		out = append(out,
			&N{K: "lcomp", A: []*N{x, {K: "cfor", A: []*N{idn("v"), e}}}},
			&N{K: "lcomp", A: []*N{x, {K: "cfor", A: []*N{idn("v"), x}}, {K: "cif", A: []*N{e}}}},
			&N{K: "lcomp", A: []*N{e, {K: "cfor", A: []*N{idn("v"), x}}, {K: "cif", A: []*N{x}}, {K: "cfor", A: []*N{&N{K: "tuple", A: []*N{idn("v"), idn("w")}}, e}}}},
			&N{K: "dcomp", A: []*N{{K: "entry", A: []*N{e, e}}, {K: "cfor", A: []*N{idn("v"), x}}, {K: "cif", A: []*N{e}}}})
	}
	// conditional / lambda / tuple in every Test and Expression position
	for _, e := range []*N{cond(a, b, c), lam(a), &N{K: "tuple", A: []*N{a, b}}, &N{K: "tuple", A: []*N{a}}} {
		out = append(out,
			&N{K: "list", A: []*N{e, e}}, &N{K: "tuple", A: []*N{e, e}}, &N{K: "dict", A: []*N{{K: "entry", A: []*N{e, e}}}},
			&N{K: "index", A: []*N{x, e}}, &N{K: "slice", A: []*N{x, e, e, e}}, &N{K: "slice", A: []*N{x, nil, e, nil}}, &N{K: "slice", A: []*N{x, nil, nil, e}},
			&N{K: "call", A: []*N{x, e, {K: "named", A: []*N{idn("k"), e}}, {K: "star", A: []*N{e}}, {K: "sstar", A: []*N{e}}}},
			&N{K: "lambda", A: []*N{{K: "pdef", A: []*N{idn("p"), e}}, e}},
			&N{K: "dot", A: []*N{e, idn("f")}}, &N{K: "call", A: []*N{e}}, &N{K: "index", A: []*N{e, x}})
	}
	// slices with each part omitted
	for m := 0; m < 8; m++ {
		s := &N{K: "slice", A: []*N{x, nil, nil, nil}}
		for i := 0; i < 3; i++ {
			if m&(1<<i) != 0 {
				s.A[i+1] = []*N{a, b, c}[i]
			}
		}
		out = append(out, s)
	}
	return out
}

func TestPropOperatorPairs(t *testing.T) {
	shapes := operatorShapes()
	layouts := []Layout{
		{Space: 1}, {Space: 0}, {Space: 1, Parens: 2, Seed: 7}, {Space: 2, Parens: 1, Seed: 11, BrkNL: true, Comments: true, Conts: true, EOL: 1, Trail: true},
	}
	vk.S.SetExhaustive("operator-pairs", true)
	vk.Enum(t, subRT, func(yield func(RTCase) bool) {
		i := 0
		for _, e := range shapes {
			for k, L := range layouts {
				i++
				if !vk.Mine(i) {
					continue
				}
				L.Seed += uint64(i) * 977
				var f *N
				switch k % 3 {
				case 0:
					f = &N{K: "file", B: []*N{{K: "expr", A: []*N{e}}}}
				case 1:
					f = &N{K: "file", B: []*N{{K: "assign", Op: "=", A: []*N{idn("r_"), e}}}}
				default:
					f = &N{K: "file", B: []*N{{K: "def", A: []*N{idn("f")}, B: []*N{{K: "return", A: []*N{e}}}}}}
				}
				if !yield(RTCase{Tree: f, L: L}) {
					return
				}
			}
		}
	})
}

// ---------------------------------------------------------------- generators: mutations

func nearMiss(t *rapid.T) TextCase {
	tree := genFile(t, 15+vk.Uniform(t, 40))
	L := genLayout(t)
	L.Retain = false
	toks := tokens(clone(tree), L, false)
	if len(toks) == 0 {
		return TextCase{Text: "", Origin: "empty"}
	}
	i := vk.Uniform(t, len(toks))
	var out []Tok
	origin := ""
	switch vk.Uniform(t, 6) {
	case 0:
		origin = "delete"
		out = append(append(out, toks[:i]...), toks[i+1:]...)
	case 1:
		origin = "duplicate"
		out = append(append(append(out, toks[:i+1]...), toks[i]), toks[i+1:]...)
	case 2:
		origin = "swap"
		out = append(out, toks...)
		if i+1 < len(out) {
			out[i], out[i+1] = out[i+1], out[i]
		}
	case 3:
		origin = "replace"
		out = append(out, toks...)
		repl := []Tok{{K: "op", S: "+"}, {K: "op", S: "<"}, {K: "op", S: "="}, {K: "op", S: ","}, {K: "op", S: ":"}, {K: "op", S: "("}, {K: "op", S: ")"},
			{K: "kw", S: "if"}, {K: "kw", S: "else"}, {K: "kw", S: "for"}, {K: "kw", S: "in"}, {K: "kw", S: "not"}, {K: "kw", S: "lambda"}, {K: "kw", S: "and"},
			{K: "id", S: "q"}, {K: "int", S: "1", V: "1"}, {K: "op", S: "*"}, {K: "op", S: "**"}, {K: "op", S: "."}, {K: "op", S: "]"}, {K: "op", S: "=="},
			{K: "reserved", S: "class"}, {K: "kw", S: "pass"}, {K: "kw", S: "def"}, {K: "op", S: ";"}, {K: "nl"}}
		out[i] = pick(t, repl)
	case 4: // drop one pair of parentheses: regroups or breaks the expression
		origin = "unparen"
		j := -1
		depth := 0
		if toks[i].K == "op" && toks[i].S == "(" {
			for k := i; k < len(toks); k++ {
				if toks[k].K == "op" && toks[k].S == "(" {
					depth++
				}
				if toks[k].K == "op" && toks[k].S == ")" {
					depth--
					if depth == 0 {
						j = k
						break
					}
				}
			}
		}
		if j < 0 {
			origin = "delete"
			out = append(append(out, toks[:i]...), toks[i+1:]...)
		} else {
			out = append(append(append(out, toks[:i]...), toks[i+1:j]...), toks[j+1:]...)
		}
	default:
		origin = "none"
		out = toks
	}
	text, _, _ := emit(out, L)
	return TextCase{Text: text, Origin: origin}
}

// chain renders A op1 B op2 C with two comparison operators and no
// parentheses around either comparison: the spec says the parser will not accept it.
func chain(t *rapid.T) TextCase {
	cmp := []string{"==", "!=", "<", ">", "<=", ">=", "in", "not in"}
	g := &gen{t: t, budget: 12}
	L := genLayout(t)
	b := &builder{r: &rng{s: L.Seed}, L: L}
	opTok := func(op string) {
		switch op {
		case "in":
			b.kw("in")
		case "not in":
			b.kw("not")
			b.kw("in")
		default:
			b.op(op)
		}
	}
	if vk.Chance(t, 0.5) {
		b.emit("id", "r_", "")
		b.op("=")
	}
	b.expr(g.expr(2), ctx{min: pCmp + 1})
	opTok(pick(t, cmp))
	b.expr(g.expr(2), ctx{min: pCmp + 1})
	opTok(pick(t, cmp))
	b.expr(g.expr(2), ctx{min: pCmp + 1})
	b.nl()
	text, _, _ := emit(b.toks, L)
	return TextCase{Text: text, Origin: "cmp-chain-random", Expect: "reject"}
}

func TestPropChains(t *testing.T) {
	vk.Rapid(t, subText, vk.N(300, 3000), chain)
}

func TestPropNearMiss(t *testing.T) {
	vk.Rapid(t, subText, vk.N(4000, 40000), nearMiss)
}

// ---------------------------------------------------------------- generators: listed texts

func listedTexts() []TextCase {
	var out []TextCase
	cmp := []string{"==", "!=", "<", ">", "<=", ">=", "in", "not in"}
	for _, o1 := range cmp {
		for _, o2 := range cmp {
			// spec, "Binary operators": comparison operators, in and not in are non-associative
			out = append(out, TextCase{Text: "x = a " + o1 + " b " + o2 + " c\n", Expect: "reject", Origin: "cmp-chain"})
			out = append(out, TextCase{Text: "x = (a " + o1 + " b) " + o2 + " c\n", Expect: "accept", Origin: "cmp-chain"})
			out = append(out, TextCase{Text: "x = a " + o1 + " b and b " + o2 + " c\n", Expect: "accept", Origin: "cmp-chain"})
		}
	}
	rej := []string{
		"[2*x for x in 1, 2, 3]\n", "[x*x for x in lambda: 0]\n", // spec, "Comprehensions"
		"x = 1,\n", "return 1,\n", "x = [for y in z]\n", "x = {a}\n", "x = {a for a in b}\n", "x = a if b\n", "load(\"m\")\n", "load(m, \"a\")\n",
		"load(\"m\", a)\n", "load(\"m\", a=b)\n", "load(b\"m\", \"a\")\n", "f(a.b=1)\n", "f((a)=1)\n", "x = lambda a,: 0\n", "def f(a b): pass\n", "def (a): pass\n",
		"def f(a):\npass\n", "if x:\n  pass\n else:\n  pass\n", "x = = 1\n", "x = y = 1\n", "x = 0755\n", "x = 1 +\n", "x = (1\n", "x = 1)\n", "x = [1}\n",
		"x = \"abc\n", "x = 'a\\qb'\n", "x = '\\400'\n", "x = '\\x4'\n", "x = '\\u12'\n", "x = '\\U00110000'\n", "x = \"\"\"abc\n", "x = 0x\n", "x = 0o8\n", "x = 0b2\n",
		"x = a ! b\n", "x = $\n", "x = a ? b : c\n", "x \\ = 1\n", "x = a not b\n", "x = a == not b\n", "x = -not a\n", "x = a + lambda: b\n", "x = a if b else c if d\n",
		"x = a.1\n", "x = a.if\n", "x = class\n", "is = 1\n", "def f(*, **): pass\n", "f(*)\n", "f(**)\n", "x = a[]\n", "x = a[1:2:3:4]\n", "x = a[1 2]\n",
		"for x in y: for z in w: pass\n", "if x: if y: pass\n", "if x:\n\n# only a comment\n", "  x = 1\n", "x = 1\n  y = 2\n", "while: pass\n", "else: pass\n",
		"x = *a\n", "x = [*a]\n", "*a, b = c\n", "x = f(a for a in b)\n", "x = {1: 2 for}\n", "x = [a for b]\n", "x = [a for b in]\n", "x = [a if b for c in d]\n",
		"pass pass\n", "x = 1 2\n", "x = 'a' 'b'\n", "def f(): return\n x\n", "x = (a, b\n", "for x, in y: pass\n", "x = lambda: (yield)\n", "break 1\n",
		"x = a <> b\n", "x = a === b\n", "x = a ** b\n", "x = a -> b\n", "x = not\n", "x = a in\n", "x = ()()(\n", "x = {1: }\n", "x = {: 1}\n", "x = {1: 2, , }\n", "f(,)\n", "f(a,,b)\n",
		"[,]\n", "(,)\n", "x = 1;;y = 2\n", ";\n",
		"x = 1\n\x00y = 2\n", "\x00", // a NUL byte is neither white space nor a token (finding C14-nul-byte-ends-file)
	}
	for _, s := range rej {
		out = append(out, TextCase{Text: s, Expect: "reject", Origin: "listed-reject"})
	}
	acc := []string{
		"", "\n", "# only a comment", "# a comment with a NUL \x00 byte\ny = 2\n", "x = 1", "x = 1;", "x = 1; y = 2;\n", "if x: pass", "if x: pass; y = 1\nelif z: pass\nelse: pass", "def f(): pass\n",
		"def f(a, b=1, *args, c, d=2, **kw,): return a, b\n", "def f(*, a): pass\n", "def f(**k, a, *b, c=1): pass\n", "x = lambda: 0\n", "x = lambda *a, **k: (a, k)\n",
		"x = a if b else c if d else e\n", "x = lambda: a if b else c\n", "x = a if b else lambda: c\n", "x = not a == b\n", "x = not not a\n", "x = a and not b or c\n",
		"x = - - a\n", "x = -~+a\n", "x = ~-1\n", "x = -a.b(c)[d]\n", "x = -a * b\n", "x = a - -b\n", "x = a[:]\n", "x = a[::]\n", "x = a[1:]\n", "x = a[:2]\n", "x = a[::3]\n", "x = a[1:2:3]\n",
		"x = a[1, 2]\n", "x = a[1, 2:3]\n", "x = a[lambda: 1:2]\n", "x = {lambda: 1: 2}\n", "x = ()\n", "x = (1,)\n", "x = (1, 2,)\n", "x = [1, 2,]\n", "x = {1: 2,}\n", "x = f(a, b=1, *c, **d,)\n",
		"x = f(**d, *c, b=1, a)\n", "x, y = y, x\n", "(x, y) = z\n", "[a, b] = c\n", "a.b[c].d = 1\n", "f() = 1\n", "x += 1\n", "x //= 2; x <<= 3; x >>= 4; x |= 5; x &= 6; x ^= 7; x %= 8; x /= 9; x -= 1; x *= 2\n",
		"for x in a, b: pass\n", "for x, y in z: pass\n", "for (x, y), [z, w] in q: pass\n", "for x.f in y: break\n", "while x: continue\n", "return\n", "return 1, 2\n", "break\n",
		"load(\"m\", \"a\")\n", "load('m', 'a', b=\"c\",)\n", "load(\"m\", \"a\", \"b\")\n", "def f():\n  load(\"m\", \"a\")\n",
		"x = [a for b in c]\n", "x = [a for b in c if d]\n", "x = [a for b, c in d for e in f if g if h]\n", "x = {a: b for c in d}\n", "x = [a for b in c if lambda: d]\n",
		"x = [a for b in c or d]\n", "x = [a for (b) in c]\n", "x = [a for b.c in d]\n", "x = [(lambda: a) for b in c]\n", "x = [lambda: a for b in c]\n", "x = [a if b else c for d in e]\n",
		"x = 0\n", "x = 0.\n", "x = .0\n", "x = 0.0\n", "x = 1e10\n", "x = 1e+10\n", "x = 1e-10\n", "x = 1.1e10\n", "x = 1.e5\n", "x = 0e0\n", "x = 00.5\n", "x = 0x7f\n", "x = 0o755\n", "x = 0b1011\n", "x = 0XaBc\n",
		"x = 0o" + strings.Repeat("7", 40) + "\n", "x = 0b" + strings.Repeat("1", 100) + "\n", "x = 0x" + strings.Repeat("f", 40) + "\n", "x = " + strings.Repeat("9", 60) + "\n",
		"x = 1 .real\n", "x = 1..real\n", "x = 1.0.real\n", "x = 'a\\\nb'\n", "x = r'a\\\nb'\n", "x = '''a\nb'''\n", "x = '''a\r\nb\rc'''\n", "x = \"\"\"a\"b\"\"c\"\"\"\n", "x = '\\0\\12\\101\\119'\n",
		"x = b'\\377\\xff'\n", "x = rb'\\x'\n", "x = '\\u00e9\\U0001F600'\n", "x = b'\\u00e9é'\n", "x = r'\\n'\n", "x = '\\a\\b\\f\\n\\r\\t\\v\\\\\\'\\\"'\n",
		"if x:\n\tpass\n", "if x:\n    if y:\n\tpass\n", "if x:\n\tif y:\n\t        pass\n", "if x:\n        pass\n\tpass\n", "if x:\n  pass\n  # c\n\n   # d\nelse:\n  pass\n",
		"x = (1 +\n  2)\n", "x = [\n# c\n1,\n\n2]\n", "x = 1 + \\\n  2\n", "x = f(\\\n1)\n", "def f():\n  return 1\n# c\nx = 2\n", "def f():\n  if x:\n    return 1\n  return 2", "é = 'é'; 世界 = é\n",
		"x = a if b else c\n", "x = (a if b else c, d)\n", "assert = 1\n", "x = a<<b>>c\n", "x = a<b\n", "x=a//b/c%d\n", "x = a |b ^c &d\n", "x = a if(b)else(c)\n", "x = (a)if b else c\n",
	}
	for _, s := range acc {
		out = append(out, TextCase{Text: s, Expect: "accept", Origin: "listed-accept"})
	}
	return out
}

func TestPropListed(t *testing.T) {
	vk.S.SetExhaustive("listed-texts", true)
	vk.Enum(t, subText, func(yield func(TextCase) bool) {
		for i, c := range listedTexts() {
			if !vk.Mine(i) {
				continue
			}
			if !yield(c) {
				return
			}
		}
	})
}

func TestReplay(t *testing.T) { vk.Replay(t) }

// ---------------------------------------------------------------- bonus: native fuzz target (not run by the driver)
//
//	go test -tags verif -run '^$' -fuzz FuzzParse -fuzztime 60s ./c14

func FuzzParse(f *testing.F) {
	for _, c := range listedTexts() {
		f.Add(c.Text)
	}
	f.Fuzz(func(t *testing.T, text string) {
		if len(text) > 4000 || strings.Count(text, "(")+strings.Count(text, "[")+strings.Count(text, "{")+strings.Count(text, "-")+strings.Count(text, "not") > 400 {
			return // deep nesting is C02's domain
		}
		c := TextCase{Text: text, Origin: "fuzz"}
		err := checkText(c)
		var ke *vk.KnownErr
		if err != nil && !strings.HasPrefix(err.Error(), "harness:") && !(errors.As(err, &ke) && vk.KnownActive(ke.ID)) {
			vk.Violation("text", c, err) // replay file + VIOLATION line, as for the generated cases
			t.Fatal(err)
		}
	})
}
