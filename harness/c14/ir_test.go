// IR of the C14 check: an own tree type for Starlark syntax (deliberately not
// syntax.*), the precedence table written from doc/spec.md, and comparison.
package c14

import (
	"fmt"
	"strings"
)

// N is one node of the IR. Kinds and the layout of A (children):
//
//	expressions
//	  id{Name}  int/float/str/bytes{Text spelling, Val value}
//	  un{Op; x}  bin{Op; x, y}  cond{then, cond, else}
//	  lambda{params..., body}   params: id | pdef{id, default} | pstar{} | pargs{id} | pkw{id}
//	  tuple{elems...}  list{elems...}  dict{entry{k, v}...}
//	  lcomp{body, clauses...}  dcomp{entry, clauses...}   clauses: cfor{vars, x} | cif{cond}
//	  dot{x, id}  index{x, y}  slice{x, lo?, hi?, step?}
//	  call{fn, args...}   args: expr | named{id, v} | star{x} | sstar{x}
//	statements
//	  expr{x}  assign{Op; lhs, rhs}  return{[x]}  break continue pass
//	  load{module str, litem{Name=local name or ""; from str}...}
//	  def{id, params...; B}  if{cond; B; C; Elif}  for{vars, x; B}  while{cond; B}
//	  file{B}
//
// Val: int = decimal digits; float = 16 hex digits of the IEEE bits; str/bytes = hex of the bytes.
type N struct {
	K    string `json:"k"`
	Op   string `json:"op,omitempty"`
	Name string `json:"n,omitempty"`
	Text string `json:"t,omitempty"`
	Val  string `json:"v,omitempty"`
	A    []*N   `json:"a,omitempty"`
	B    []*N   `json:"b,omitempty"`
	C    []*N   `json:"c,omitempty"`
	Elif bool   `json:"elif,omitempty"` // C is a single "if" written with elif

	// Position of the node's first token (runes, 1-based); filled by the
	// renderer, the reference parser and the converter. Not part of the case.
	Line  int  `json:"-"`
	Col   int  `json:"-"`
	NoPos bool `json:"-"` // no position convention is claimed for this node
}

// Precedence levels, lowest binding first. The binary part is the table in
// doc/spec.md "Binary operators" (in order of increasing precedence); 'not'
// sits between 'and' and the comparisons (spec example "not x or not x[0]",
// Python); + - ~ apply to a PrimaryExpr (spec "Unary operators"); conditional
// and lambda are not operands of any operator.
const (
	pTuple   = -3
	pLambda  = -2
	pCond    = -1
	pOr      = 0
	pAnd     = 1
	pNot     = 2
	pCmp     = 3
	pPipe    = 4
	pCaret   = 5
	pAmp     = 6
	pShift   = 7
	pAdd     = 8
	pMul     = 9
	pUnary   = 10
	pPrimary = 11
)

var binOps = []string{"or", "and", "==", "!=", "<", ">", "<=", ">=", "in", "not in", "|", "^", "&", "<<", ">>", "-", "+", "*", "%", "/", "//"}

func binPrec(op string) int {
	switch op {
	case "or":
		return pOr
	case "and":
		return pAnd
	case "==", "!=", "<", ">", "<=", ">=", "in", "not in":
		return pCmp
	case "|":
		return pPipe
	case "^":
		return pCaret
	case "&":
		return pAmp
	case "<<", ">>":
		return pShift
	case "-", "+":
		return pAdd
	case "*", "%", "/", "//":
		return pMul
	}
	return -100
}

var augOps = []string{"=", "+=", "-=", "*=", "/=", "//=", "%=", "&=", "|=", "^=", "<<=", ">>="}

func prec(n *N) int {
	switch n.K {
	case "tuple":
		if len(n.A) == 0 {
			return pPrimary
		}
		return pTuple
	case "lambda":
		return pLambda
	case "cond":
		return pCond
	case "bin":
		return binPrec(n.Op)
	case "un":
		if n.Op == "not" {
			return pNot
		}
		return pUnary
	}
	return pPrimary
}

func isLit(k string) bool { return k == "int" || k == "float" || k == "str" || k == "bytes" }

// canon is a canonical string of the tree without spellings and positions.
func canon(n *N) string {
	var sb strings.Builder
	canonTo(&sb, n)
	return sb.String()
}

func canonTo(sb *strings.Builder, n *N) {
	if n == nil {
		sb.WriteString("_")
		return
	}
	sb.WriteString("(")
	sb.WriteString(n.K)
	if n.Op != "" {
		sb.WriteString(" " + n.Op)
	}
	if n.Name != "" {
		sb.WriteString(" " + n.Name)
	}
	if n.Val != "" || isLit(n.K) {
		sb.WriteString(" =" + n.Val)
	}
	if n.Elif {
		sb.WriteString(" elif")
	}
	for _, c := range n.A {
		sb.WriteString(" ")
		canonTo(sb, c)
	}
	if len(n.B) > 0 || n.K == "file" {
		sb.WriteString(" B[")
		for _, c := range n.B {
			canonTo(sb, c)
		}
		sb.WriteString("]")
	}
	if len(n.C) > 0 {
		sb.WriteString(" C[")
		for _, c := range n.C {
			canonTo(sb, c)
		}
		sb.WriteString("]")
	}
	sb.WriteString(")")
}

// diff compares two trees: kinds, operators, names, literal values, shape and
// (when checkPos) the start position of every node for which want claims one.
func diff(want, got *N, path string, checkPos bool) error {
	if want == nil || got == nil {
		if want != got {
			return fmt.Errorf("%s: want %s, got %s", path, short(want), short(got))
		}
		return nil
	}
	if want.K != got.K || want.Op != got.Op || want.Name != got.Name || want.Elif != got.Elif {
		return fmt.Errorf("%s: want %s, got %s", path, short(want), short(got))
	}
	if isLit(want.K) && want.Val != got.Val {
		return fmt.Errorf("%s: %s literal %q: want value %s, got %s", path, want.K, want.Text, want.Val, got.Val)
	}
	if len(want.A) != len(got.A) || len(want.B) != len(got.B) || len(want.C) != len(got.C) {
		return fmt.Errorf("%s: want %s, got %s (child counts %d/%d/%d vs %d/%d/%d)", path, short(want), short(got),
			len(want.A), len(want.B), len(want.C), len(got.A), len(got.B), len(got.C))
	}
	if checkPos && !want.NoPos && !got.NoPos && want.Line != 0 && (want.Line != got.Line || want.Col != got.Col) {
		return fmt.Errorf("%s: %s starts at %d:%d in the text, reported %d:%d", path, short(want), want.Line, want.Col, got.Line, got.Col)
	}
	for i := range want.A {
		if err := diff(want.A[i], got.A[i], fmt.Sprintf("%s/%s.a%d", path, want.K, i), checkPos); err != nil {
			return err
		}
	}
	for i := range want.B {
		if err := diff(want.B[i], got.B[i], fmt.Sprintf("%s/%s.b%d", path, want.K, i), checkPos); err != nil {
			return err
		}
	}
	for i := range want.C {
		if err := diff(want.C[i], got.C[i], fmt.Sprintf("%s/%s.c%d", path, want.K, i), checkPos); err != nil {
			return err
		}
	}
	return nil
}

func short(n *N) string {
	if n == nil {
		return "<none>"
	}
	s := canon(n)
	if len(s) > 160 {
		s = s[:160] + "..."
	}
	return s
}

// clone deep-copies a tree (positions reset).
func clone(n *N) *N {
	if n == nil {
		return nil
	}
	c := &N{K: n.K, Op: n.Op, Name: n.Name, Text: n.Text, Val: n.Val, Elif: n.Elif}
	if n.A != nil {
		c.A = make([]*N, len(n.A))
		for i, x := range n.A {
			c.A[i] = clone(x)
		}
	}
	if n.B != nil {
		c.B = make([]*N, len(n.B))
		for i, x := range n.B {
			c.B[i] = clone(x)
		}
	}
	if n.C != nil {
		c.C = make([]*N, len(n.C))
		for i, x := range n.C {
			c.C[i] = clone(x)
		}
	}
	return c
}

func walk(n *N, f func(*N)) {
	if n == nil {
		return
	}
	f(n)
	for _, c := range n.A {
		walk(c, f)
	}
	for _, c := range n.B {
		walk(c, f)
	}
	for _, c := range n.C {
		walk(c, f)
	}
}

// valid reports structural problems of a (replayed or generated) tree so the
// renderer never indexes out of range.
func valid(n *N) error {
	var err error
	need := func(n *N, min int) {
		if len(n.A) < min && err == nil {
			err = fmt.Errorf("malformed %s node", n.K)
		}
	}
	walk(n, func(n *N) {
		switch n.K {
		case "un", "cif", "expr", "star", "sstar", "pargs", "pkw", "litem", "load", "while", "if", "def", "lcomp", "dcomp", "lambda", "call":
			need(n, 1)
		case "bin", "dot", "index", "entry", "cfor", "named", "pdef", "assign", "for":
			need(n, 2)
		case "cond":
			need(n, 3)
		case "slice":
			need(n, 4)
		}
		for i, c := range n.A {
			if c == nil && !(n.K == "slice" && i > 0) && err == nil {
				err = fmt.Errorf("nil child in %s", n.K)
			}
		}
	})
	return err
}
