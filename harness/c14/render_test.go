// RENDER: IR -> tokens -> text under a drawn layout, recording for every IR
// node the (line, col) in runes of its first token.
package c14

import (
	"strings"
	"unicode"
	"unicode/utf8"
)

// Tok is a token of the rendered (or reference-lexed) text.
// K: id int float str bytes kw op reserved nl indent outdent.
type Tok struct {
	K     string
	S     string // source spelling
	V     string // literal value (same encoding as N.Val)
	Line  int
	Col   int
	nodes []*N // IR nodes whose first token this is
	opt   bool // optional trailing comma
}

// Layout holds the drawn layout choices. Features shrink towards false/0.
type Layout struct {
	Seed      uint64 `json:"seed"`
	Space     int    `json:"space"`  // 0 minimal, 1 single spaces, 2 random white space
	Parens    int    `json:"parens"` // 0 minimal, 1 some redundant, 2 many redundant
	Comments  bool   `json:"comments"`
	Conts     bool   `json:"conts"` // backslash continuations
	BrkNL     bool   `json:"brknl"` // line breaks inside brackets
	Semis     bool   `json:"semis"`
	OneLine   bool   `json:"oneline"` // one-line suites
	Blank     bool   `json:"blank"`   // blank and comment-only lines
	Trail     bool   `json:"trail"`   // optional trailing commas
	EOL       int    `json:"eol"`     // 0 LF, 1 CRLF, 2 CR, 3 mixed
	Indent    int    `json:"indent"`  // 0 four spaces, 1 random extension of the parent's indentation, 2 columns with tabs
	NoFinalNL bool   `json:"nofinalnl"`
	Retain    bool   `json:"retain"` // parse with RetainComments
}

// rng is splitmix64; the seed is drawn by rapid and stored in the case.
type rng struct{ s uint64 }

func (r *rng) next() uint64 {
	r.s += 0x9e3779b97f4a7c15
	z := r.s
	z = (z ^ (z >> 30)) * 0xbf58476d1ce4e5b9
	z = (z ^ (z >> 27)) * 0x94d049bb133111eb
	return z ^ (z >> 31)
}
func (r *rng) n(n int) int {
	if n <= 1 {
		return 0
	}
	return int(r.next() % uint64(n))
}
func (r *rng) pct(p int) bool { return r.n(100) < p }

// ---------------------------------------------------------------- phase 1: IR -> tokens

type ctx struct {
	min    int  // lowest precedence that may appear without parentheses
	tuple  bool // an unparenthesised tuple of >= 2 elements is allowed ("Expression")
	nocond bool // a conditional needs parentheses; lambda bodies inherit this
}

var (
	cExpression = ctx{min: pTuple, tuple: true}
	cTest       = ctx{min: pLambda}
	cOrTest     = ctx{min: pOr}
	cPrimary    = ctx{min: pPrimary}
)

type builder struct {
	toks    []Tok
	pending []*N
	r       *rng
	L       Layout
	canon   bool // canonical minimal rendering: no random choices at all
}

func (b *builder) emit(k, s, v string) {
	t := Tok{K: k, S: s, V: v}
	if len(b.pending) > 0 {
		t.nodes = b.pending
		b.pending = nil
	}
	b.toks = append(b.toks, t)
}
func (b *builder) op(s string) { b.emit("op", s, "") }
func (b *builder) kw(s string) { b.emit("kw", s, "") }
func (b *builder) mark(n *N)   { b.pending = append(b.pending, n) }
func (b *builder) chance(p int) bool {
	return !b.canon && b.r.pct(p)
}
func (b *builder) optComma(nonEmpty bool) {
	if nonEmpty && b.L.Trail && b.chance(40) {
		b.op(",")
		b.toks[len(b.toks)-1].opt = true
	}
}

func (b *builder) expr(n *N, c ctx) {
	p := prec(n)
	need := p < c.min
	if n.K == "tuple" && len(n.A) > 0 {
		need = !(c.tuple && len(n.A) >= 2)
	}
	if n.K == "cond" && c.nocond {
		need = true
	}
	total := 0
	if need {
		total = 1
	}
	if !b.canon {
		switch b.L.Parens {
		case 1:
			if b.r.pct(12) {
				total++
			}
		case 2:
			if b.r.pct(40) {
				total++
				if b.r.pct(30) {
					total++
				}
			}
		}
	}
	for i := 0; i < total; i++ {
		b.op("(")
	}
	inner := c
	if total > 0 {
		inner = cExpression
	}
	b.mark(n)
	b.node(n, inner, total > 0)
	for i := 0; i < total; i++ {
		b.op(")")
	}
}

func (b *builder) commaList(xs []*N, c ctx) {
	for i, x := range xs {
		if i > 0 {
			b.op(",")
		}
		b.expr(x, c)
	}
}

func (b *builder) node(n *N, c ctx, inParens bool) {
	switch n.K {
	case "id":
		b.emit("id", n.Name, "")
	case "int", "float", "str", "bytes":
		b.emit(n.K, n.Text, n.Val)
	case "un":
		if n.Op == "not" {
			b.kw("not")
			b.expr(n.A[0], ctx{min: pNot})
		} else {
			b.op(n.Op)
			b.expr(n.A[0], ctx{min: pUnary})
		}
	case "bin":
		l := binPrec(n.Op)
		left := l
		if l == pCmp {
			left = l + 1 // comparisons do not associate
		}
		b.expr(n.A[0], ctx{min: left})
		if n.Op == "not in" {
			b.kw("not")
			b.kw("in")
		} else if n.Op == "or" || n.Op == "and" || n.Op == "in" {
			b.kw(n.Op)
		} else {
			b.op(n.Op)
		}
		b.expr(n.A[1], ctx{min: l + 1})
	case "cond":
		b.expr(n.A[0], cOrTest)
		b.kw("if")
		b.expr(n.A[1], cOrTest)
		b.kw("else")
		b.expr(n.A[2], cTest)
	case "lambda":
		b.kw("lambda")
		b.params(n.A[:len(n.A)-1])
		b.op(":")
		b.expr(n.A[len(n.A)-1], ctx{min: pLambda, nocond: c.nocond})
	case "tuple":
		if len(n.A) == 0 {
			b.op("(")
			b.op(")")
			return
		}
		b.commaList(n.A, cTest)
		if len(n.A) == 1 {
			b.op(",")
		} else if inParens {
			b.optComma(true)
		}
	case "list":
		b.op("[")
		b.commaList(n.A, cTest)
		b.optComma(len(n.A) > 0)
		b.op("]")
	case "dict":
		b.op("{")
		for i, e := range n.A {
			if i > 0 {
				b.op(",")
			}
			b.entry(e)
		}
		b.optComma(len(n.A) > 0)
		b.op("}")
	case "lcomp":
		b.op("[")
		b.expr(n.A[0], cTest)
		b.clauses(n.A[1:])
		b.op("]")
	case "dcomp":
		b.op("{")
		b.entry(n.A[0])
		b.clauses(n.A[1:])
		b.op("}")
	case "dot":
		b.expr(n.A[0], cPrimary)
		b.op(".")
		b.mark(n.A[1])
		b.emit("id", n.A[1].Name, "")
	case "index":
		b.expr(n.A[0], cPrimary)
		b.op("[")
		b.expr(n.A[1], cExpression)
		b.op("]")
	case "slice":
		b.expr(n.A[0], cPrimary)
		b.op("[")
		if n.A[1] != nil {
			b.expr(n.A[1], cExpression)
		}
		b.op(":")
		if n.A[2] != nil {
			b.expr(n.A[2], cTest)
		}
		if n.A[3] != nil {
			b.op(":")
			b.expr(n.A[3], cTest)
		} else if b.chance(30) {
			b.op(":")
		}
		b.op("]")
	case "call":
		b.expr(n.A[0], cPrimary)
		b.op("(")
		for i, a := range n.A[1:] {
			if i > 0 {
				b.op(",")
			}
			switch a.K {
			case "named":
				b.mark(a)
				b.mark(a.A[0])
				b.emit("id", a.A[0].Name, "")
				b.op("=")
				b.expr(a.A[1], cTest)
			case "star":
				b.mark(a)
				b.op("*")
				b.expr(a.A[0], cTest)
			case "sstar":
				b.mark(a)
				b.op("**")
				b.expr(a.A[0], cTest)
			default:
				b.expr(a, cTest)
			}
		}
		b.optComma(len(n.A) > 1)
		b.op(")")
	default:
		panic("render: unknown expression kind " + n.K)
	}
}

func (b *builder) entry(e *N) {
	b.mark(e)
	b.expr(e.A[0], cTest)
	b.op(":")
	b.expr(e.A[1], cTest)
}

func (b *builder) clauses(cs []*N) {
	for _, c := range cs {
		b.mark(c)
		if c.K == "cfor" {
			b.kw("for")
			b.vars(c.A[0])
			b.kw("in")
			b.expr(c.A[1], cOrTest)
		} else {
			b.kw("if")
			b.expr(c.A[0], ctx{min: pLambda, nocond: true})
		}
	}
}

// vars renders loop variables: PrimaryExpr {',' PrimaryExpr}.
func (b *builder) vars(v *N) {
	if v.K == "tuple" && len(v.A) >= 2 && !b.chance(25) {
		b.mark(v)
		b.commaList(v.A, cPrimary)
		return
	}
	b.expr(v, cPrimary)
}

func (b *builder) params(ps []*N) {
	for i, p := range ps {
		if i > 0 {
			b.op(",")
		}
		b.mark(p)
		switch p.K {
		case "id":
			b.emit("id", p.Name, "")
		case "pdef":
			b.mark(p.A[0])
			b.emit("id", p.A[0].Name, "")
			b.op("=")
			b.expr(p.A[1], cTest)
		case "pstar":
			b.op("*")
		case "pargs":
			b.op("*")
			b.mark(p.A[0])
			b.emit("id", p.A[0].Name, "")
		case "pkw":
			b.op("**")
			b.mark(p.A[0])
			b.emit("id", p.A[0].Name, "")
		default:
			panic("render: unknown parameter kind " + p.K)
		}
	}
}

func simple(s *N) bool {
	switch s.K {
	case "def", "if", "for", "while":
		return false
	}
	return true
}

func (b *builder) small(s *N) {
	b.mark(s)
	switch s.K {
	case "expr":
		b.expr(s.A[0], cExpression)
	case "assign":
		b.expr(s.A[0], cExpression)
		b.op(s.Op)
		b.expr(s.A[1], cExpression)
	case "return":
		b.kw("return")
		if len(s.A) > 0 {
			b.expr(s.A[0], cExpression)
		}
	case "break", "continue", "pass":
		b.kw(s.K)
	case "load":
		b.kw("load")
		b.op("(")
		b.mark(s.A[0])
		b.emit("str", s.A[0].Text, s.A[0].Val)
		for _, it := range s.A[1:] {
			b.op(",")
			b.mark(it)
			if it.Name != "" {
				b.emit("id", it.Name, "")
				b.op("=")
			}
			b.mark(it.A[0])
			b.emit("str", it.A[0].Text, it.A[0].Val)
		}
		b.optComma(true)
		b.op(")")
	default:
		panic("render: unknown simple statement " + s.K)
	}
}

func (b *builder) nl()      { b.emit("nl", "", "") }
func (b *builder) indent()  { b.emit("indent", "", "") }
func (b *builder) outdent() { b.emit("outdent", "", "") }

// line renders simple statements joined by ';' and the NEWLINE.
func (b *builder) line(ss []*N) {
	for i, s := range ss {
		if i > 0 {
			b.op(";")
		}
		b.small(s)
	}
	if b.L.Semis && b.chance(15) {
		b.op(";")
	}
	b.nl()
}

func (b *builder) block(ss []*N) {
	for i := 0; i < len(ss); {
		if !simple(ss[i]) {
			b.compound(ss[i], false)
			i++
			continue
		}
		j := i + 1
		for j < len(ss) && simple(ss[j]) && b.L.Semis && b.chance(35) {
			j++
		}
		b.line(ss[i:j])
		i = j
	}
}

func (b *builder) suite(ss []*N) {
	b.op(":")
	all := true
	for _, s := range ss {
		if !simple(s) {
			all = false
		}
	}
	if all && len(ss) > 0 && b.L.OneLine && b.chance(50) && (b.L.Semis || len(ss) == 1) {
		b.line(ss)
		return
	}
	b.nl()
	b.indent()
	b.block(ss)
	b.outdent()
}

func (b *builder) compound(s *N, elif bool) {
	b.mark(s)
	switch s.K {
	case "def":
		b.kw("def")
		b.mark(s.A[0])
		b.emit("id", s.A[0].Name, "")
		b.op("(")
		b.params(s.A[1:])
		b.optComma(len(s.A) > 1)
		b.op(")")
		b.suite(s.B)
	case "if":
		if elif {
			b.kw("elif")
		} else {
			b.kw("if")
		}
		b.expr(s.A[0], cTest)
		b.suite(s.B)
		if s.Elif && len(s.C) == 1 && s.C[0].K == "if" {
			b.compound(s.C[0], true)
		} else if len(s.C) > 0 {
			b.kw("else")
			b.suite(s.C)
		}
	case "for":
		b.kw("for")
		b.vars(s.A[0])
		b.kw("in")
		b.expr(s.A[1], cExpression)
		b.suite(s.B)
	case "while":
		b.kw("while")
		b.expr(s.A[0], cTest)
		b.suite(s.B)
	default:
		panic("render: unknown compound statement " + s.K)
	}
}

// tokens renders a file node to its token stream.
func tokens(file *N, L Layout, canonical bool) []Tok {
	b := &builder{r: &rng{s: L.Seed ^ 0xabcdef}, L: L, canon: canonical}
	b.block(file.B)
	return b.toks
}

// ---------------------------------------------------------------- phase 2: tokens -> text

type usage struct {
	comment, cont, brknl, semi, crlf, tabindent bool
}

func (u usage) count() int {
	n := 0
	for _, b := range []bool{u.comment, u.cont, u.brknl, u.semi, u.crlf, u.tabindent} {
		if b {
			n++
		}
	}
	return n
}

type emitter struct {
	sb        strings.Builder
	line, col int
	r         *rng
	L         Layout
	use       usage
	stack     []string // indentation strings
	depth     int
	lastCR    bool
}

func (e *emitter) write(s string) {
	e.sb.WriteString(s)
	if s == "" {
		return
	}
	if e.lastCR && s[0] == '\n' { // completes a CRLF begun by the previous chunk
		s = s[1:]
	}
	e.lastCR = len(s) > 0 && s[len(s)-1] == '\r'
	for i := 0; i < len(s); {
		c := s[i]
		switch {
		case c == '\r':
			if i+1 < len(s) && s[i+1] == '\n' {
				i++
			}
			e.line++
			e.col = 1
			i++
		case c == '\n':
			e.line++
			e.col = 1
			i++
		case c < utf8.RuneSelf:
			e.col++
			i++
		default:
			_, sz := utf8.DecodeRuneInString(s[i:])
			e.col++
			i += sz
		}
	}
}

func (e *emitter) eol() string {
	m := e.L.EOL
	if m == 3 {
		m = e.r.n(2) // LF and CRLF mixed; a lone CR before an LF would read as CRLF
	}
	switch m {
	case 1:
		e.use.crlf = true
		return "\r\n"
	case 2:
		return "\r"
	}
	return "\n"
}

var commentTexts = []string{"#", "# c", "#!x", "# é世 \"q' \\", "#\ttab", "# if x: (", "#😀 ] }", "# trailing \\"}

func (e *emitter) comment() string {
	e.use.comment = true
	return commentTexts[e.r.n(len(commentTexts))]
}

func (e *emitter) ws(allowEmpty bool) string {
	opts := []string{" ", "  ", "\t", " \t ", "   "}
	if allowEmpty && e.r.pct(40) {
		return ""
	}
	return opts[e.r.n(len(opts))]
}

// fillerLines are blank or comment-only lines; their indentation is free.
func (e *emitter) fillerLines() string {
	var sb strings.Builder
	for k := e.r.n(3); k > 0; k-- {
		if e.r.pct(50) {
			sb.WriteString(e.ws(true))
		}
		if e.L.Comments && e.r.pct(50) {
			sb.WriteString(e.comment())
		}
		sb.WriteString(e.eol())
	}
	return sb.String()
}

func isWordRune(r rune) bool { return r == '_' || unicode.IsLetter(r) || unicode.IsDigit(r) }

var puncts = []string{"//=", "<<=", ">>=", "**", "//", "<<", ">>", "+=", "-=", "*=", "/=", "%=", "==", "!=", "^=", "<=", ">=", "&=", "|=",
	"+", "-", "*", "/", "%", "=", "^", "<", ">", "&", "|", ".", ",", ";", ":", "~", "(", ")", "[", "]", "{", "}"}

// punctAt returns the longest punctuation token at the start of s ("" if none).
func punctAt(s string) string {
	for _, p := range puncts {
		if strings.HasPrefix(s, p) {
			return p
		}
	}
	return ""
}

// needSpace reports whether tokens a and b would lex differently when adjacent.
func needSpace(a, b Tok) bool {
	if a.S == "" || b.S == "" {
		return false
	}
	la, _ := utf8.DecodeLastRuneInString(a.S)
	fb, _ := utf8.DecodeRuneInString(b.S)
	aWord := a.K == "id" || a.K == "kw" || a.K == "reserved"
	aNum := a.K == "int" || a.K == "float"
	if (aWord || aNum) && (isWordRune(fb) || fb == '.' && aNum) {
		return true
	}
	if aNum && (b.K == "str" || b.K == "bytes") {
		return true
	}
	if aWord && (b.K == "str" || b.K == "bytes") {
		return true
	}
	if la == '.' && unicode.IsDigit(fb) {
		return true
	}
	if a.K == "op" && b.K == "op" {
		return punctAt(a.S+b.S) != a.S
	}
	if a.K == "op" && (a.S == "." || a.S == "!") {
		return true
	}
	return false
}

func (e *emitter) gap(prev, t Tok) string {
	must := needSpace(prev, t)
	switch e.L.Space {
	case 0:
		if must {
			return " "
		}
		if !e.fancy() {
			return ""
		}
	case 1:
		if !e.fancy() {
			if prev.S == "(" || prev.S == "[" || t.S == ")" || t.S == "]" || t.S == "," || t.S == "(" && (prev.K == "id") || t.S == "." || prev.S == "." {
				if must {
					return " "
				}
				return ""
			}
			return " "
		}
	}
	// random white space, continuations and bracket line breaks
	k := e.r.n(100)
	switch {
	case e.L.Conts && k < 12:
		e.use.cont = true
		return e.ws(true) + "\\" + e.eol() + e.ws(true)
	case e.L.BrkNL && e.depth > 0 && k < 40:
		e.use.brknl = true
		s := e.ws(true)
		if e.L.Comments && e.r.pct(40) {
			s += e.comment()
		}
		s += e.eol()
		if e.L.Blank {
			s += e.fillerLines()
		}
		return s + e.ws(true)
	case e.L.Space == 2:
		return e.ws(!must)
	}
	if must || e.L.Space == 1 {
		return " "
	}
	return ""
}

// fancy: whether this gap takes part in the random layout features.
func (e *emitter) fancy() bool {
	return (e.L.Conts || e.L.BrkNL && e.depth > 0) && e.r.pct(35)
}

// col8 is the indentation column of s under the rule "a tab advances to the
// next multiple of 8"; ok is false when s has a tab anywhere but as the single
// tab within the first eight characters (where other conventions differ).
func col8(s string) (col int, ok bool) {
	ok = true
	tabs := 0
	for i := 0; i < len(s); i++ {
		if s[i] == '\t' {
			tabs++
			if tabs > 1 || i > 7 {
				ok = false
			}
			col += 8 - col%8
		} else {
			col++
		}
	}
	return
}

func spellCol(col int, tab bool, r *rng) string {
	if tab && col >= 8 {
		return strings.Repeat(" ", r.n(8)) + "\t" + strings.Repeat(" ", col-8)
	}
	return strings.Repeat(" ", col)
}

func (e *emitter) newIndent() string {
	top := e.stack[len(e.stack)-1]
	switch e.L.Indent {
	case 1:
		ext := []string{" ", "  ", "   ", "    ", "\t", "\t\t", " \t", "        ", "\t "}
		s := top + ext[e.r.n(len(ext))]
		if strings.Contains(s, "\t") {
			e.use.tabindent = true
		}
		return s
	case 2:
		if c0, ok := col8(top); ok {
			c1 := c0 + 1 + e.r.n(8)
			tab := e.r.pct(60)
			s := spellCol(c1, tab, e.r)
			if strings.Contains(s, "\t") {
				e.use.tabindent = true
			}
			return s
		}
	}
	return top + "    "
}

// emit writes the token stream as text, filling in token and node positions.
func emit(toks []Tok, L Layout) (string, []Tok, usage) {
	e := &emitter{line: 1, col: 1, r: &rng{s: L.Seed ^ 0x5151}, L: L, stack: []string{""}}
	out := make([]Tok, 0, len(toks))
	atStart := true
	var prev Tok
	last := -1
	for i, t := range toks {
		if t.K != "indent" && t.K != "outdent" {
			last = i
		}
	}
	if L.Blank {
		e.write(e.fillerLines())
	}
	for i := range toks {
		t := toks[i]
		switch t.K {
		case "indent":
			e.stack = append(e.stack, e.newIndent())
			out = append(out, t)
			continue
		case "outdent":
			if len(e.stack) > 1 {
				e.stack = e.stack[:len(e.stack)-1]
			}
			out = append(out, t)
			continue
		case "nl":
			if L.Space == 2 && e.r.pct(30) {
				e.write(e.ws(false))
			}
			if L.Comments && e.r.pct(30) {
				e.write(e.comment())
			}
			t.Line, t.Col = e.line, e.col
			if !(i == last && L.NoFinalNL) {
				e.write(e.eol())
				if L.Blank && e.r.pct(40) {
					e.write(e.fillerLines())
				}
			}
			atStart = true
			out = append(out, t)
			continue
		}
		if atStart {
			ind := e.stack[len(e.stack)-1]
			if L.Indent == 2 && e.r.pct(15) {
				if c, ok := col8(ind); ok && c >= 8 {
					ind = spellCol(c, !strings.Contains(ind, "\t"), e.r) // same column, other spelling
					e.use.tabindent = true
				}
			}
			e.write(ind)
			atStart = false
		} else {
			e.write(e.gap(prev, t))
		}
		t.Line, t.Col = e.line, e.col
		for _, n := range t.nodes {
			n.Line, n.Col = e.line, e.col
		}
		if t.S == ";" {
			e.use.semi = true
		}
		e.write(t.S)
		switch t.S {
		case "(", "[", "{":
			if t.K == "op" {
				e.depth++
			}
		case ")", "]", "}":
			if t.K == "op" && e.depth > 0 {
				e.depth--
			}
		}
		prev = t
		out = append(out, t)
	}
	return e.sb.String(), out, e.use
}

// render is both phases on a private copy of the tree; the copy carries the positions.
func render(file *N, L Layout) (text string, tree *N, toks []Tok, use usage) {
	tree = clone(file)
	ts := tokens(tree, L, false)
	text, toks, use = emit(ts, L)
	markLoadPositions(tree)
	return
}

// canonical is the minimal rendering with the plainest layout.
func canonical(file *N) (string, []Tok) {
	tree := clone(file)
	ts := tokens(tree, Layout{Space: 1}, true)
	text, toks, _ := emit(ts, Layout{Space: 1})
	return text, toks
}

// markLoadPositions: the names of a load statement are reported as Idents
// placed one column after the opening quote; this is claimed only for plain
// "..." / '...' spellings.
func markLoadPositions(tree *N) {
	walk(tree, func(n *N) {
		if n.K == "litem" {
			s := n.A[0]
			if !plainQuoted(s.Text) {
				s.NoPos = true
			}
		}
	})
}

func plainQuoted(t string) bool {
	if len(t) < 2 || (t[0] != '"' && t[0] != '\'') {
		return false
	}
	return !(len(t) >= 6 && t[1] == t[0] && t[2] == t[0])
}
