// Reference lexer written from doc/spec.md "Lexical elements". It is
// three-valued: tokens, a rejection (error), or "unsure" when the text
// touches a point on which the specification is silent or ambiguous.
package c14

import (
	"encoding/hex"
	"fmt"
	"math/big"
	"strings"
	"unicode"
	"unicode/utf8"
)

var keywords = map[string]bool{"and": true, "elif": true, "in": true, "or": true, "break": true, "else": true, "lambda": true, "pass": true,
	"continue": true, "for": true, "load": true, "return": true, "def": true, "if": true, "not": true, "while": true}

// "assert" is reserved by the spec but the Go implementation documents that it permits it.
var reserved = map[string]bool{"as": true, "except": true, "nonlocal": true, "finally": true, "raise": true, "async": true, "from": true,
	"try": true, "await": true, "global": true, "with": true, "class": true, "import": true, "yield": true, "del": true, "is": true}

type lexer struct {
	s         string
	i         int
	line, col int
	toks      []Tok
	unsure    string
	stack     []string
	depth     int
	lineToks  int // tokens on the current logical line
}

type rejectError struct {
	msg       string
	line, col int
}

func (e *rejectError) Error() string { return fmt.Sprintf("%d:%d: %s", e.line, e.col, e.msg) }

func (lx *lexer) fail(format string, args ...any) {
	panic(&rejectError{fmt.Sprintf(format, args...), lx.line, lx.col})
}

func (lx *lexer) doubt(why string) {
	if lx.unsure == "" {
		lx.unsure = why
	}
}

func (lx *lexer) eof() bool { return lx.i >= len(lx.s) }

// peek returns the next rune; every line ending reads as '\n'.
func (lx *lexer) peek() rune {
	if lx.eof() {
		return -1
	}
	c := lx.s[lx.i]
	if c == '\r' {
		return '\n'
	}
	if c < utf8.RuneSelf {
		return rune(c)
	}
	r, _ := utf8.DecodeRuneInString(lx.s[lx.i:])
	return r
}

func (lx *lexer) peekAt(off int) byte {
	if lx.i+off < len(lx.s) {
		return lx.s[lx.i+off]
	}
	return 0
}

// next consumes one rune (LF, CRLF and CR are one line ending) and returns its source bytes.
func (lx *lexer) next() (rune, string) {
	c := lx.s[lx.i]
	switch {
	case c == '\r':
		n := 1
		if lx.peekAt(1) == '\n' {
			n = 2
		}
		src := lx.s[lx.i : lx.i+n]
		lx.i += n
		lx.line++
		lx.col = 1
		return '\n', src
	case c == '\n':
		lx.i++
		lx.line++
		lx.col = 1
		return '\n', "\n"
	case c < utf8.RuneSelf:
		lx.i++
		lx.col++
		return rune(c), string(c)
	}
	r, sz := utf8.DecodeRuneInString(lx.s[lx.i:])
	src := lx.s[lx.i : lx.i+sz]
	lx.i += sz
	lx.col++
	return r, src
}

func (lx *lexer) add(k, s, v string, line, col int) {
	lx.toks = append(lx.toks, Tok{K: k, S: s, V: v, Line: line, Col: col})
	if k != "indent" && k != "outdent" && k != "nl" {
		lx.lineToks++
	}
}

func refLex(text string) (toks []Tok, unsure string, err error) {
	lx := &lexer{s: text, line: 1, col: 1, stack: []string{""}}
	defer func() {
		if r := recover(); r != nil {
			if re, ok := r.(*rejectError); ok {
				toks, unsure, err = lx.toks, lx.unsure, re
				return
			}
			panic(r)
		}
	}()
	if !utf8.ValidString(text) {
		lx.doubt("source is not UTF-8")
	}
	lx.run()
	return lx.toks, lx.unsure, nil
}

func (lx *lexer) run() {
	lineStart := true
	for {
		if lineStart {
			lineStart = false
			j := lx.i
			for !lx.eof() && (lx.s[lx.i] == ' ' || lx.s[lx.i] == '\t') {
				lx.next()
			}
			ind := lx.s[j:lx.i]
			c := lx.peek()
			blank := c == '#' || c == '\n' || c == -1
			if !blank && lx.depth == 0 {
				lx.indentation(ind)
			}
			if blank {
				// blank and comment-only lines produce no token
				for c != '\n' && c != -1 {
					lx.next()
					c = lx.peek()
				}
				if c == '\n' {
					lx.next()
					lineStart = true
					continue
				}
			}
		}
		c := lx.peek()
		for c == ' ' || c == '\t' {
			lx.next()
			c = lx.peek()
		}
		if c == '#' {
			for c != '\n' && c != -1 {
				lx.next()
				c = lx.peek()
			}
		}
		if c == '\n' {
			line, col := lx.line, lx.col
			lx.next()
			lineStart = true
			if lx.depth == 0 {
				if lx.lineToks > 0 {
					lx.add("nl", "", "", line, col)
				}
				lx.lineToks = 0
			}
			continue
		}
		if c == -1 {
			if lx.lineToks > 0 {
				lx.add("nl", "", "", lx.line, lx.col)
				lx.lineToks = 0
			}
			for len(lx.stack) > 1 {
				lx.stack = lx.stack[:len(lx.stack)-1]
				lx.add("outdent", "", "", lx.line, lx.col)
			}
			return
		}
		if c == '\\' {
			lx.next()
			if lx.peek() != '\n' {
				lx.fail("stray backslash")
			}
			lx.next()
			if lx.lineToks == 0 {
				lx.doubt("line continuation before the first token of a line")
			}
			k := lx.i
			for k < len(lx.s) && (lx.s[k] == ' ' || lx.s[k] == '\t') {
				k++
			}
			if k >= len(lx.s) || lx.s[k] == '\n' || lx.s[k] == '\r' || lx.s[k] == '#' {
				lx.doubt("line continuation followed by a blank line")
			}
			continue
		}
		lx.token(c)
	}
}

func (lx *lexer) indentation(ind string) {
	line, col := lx.line, lx.col
	top := lx.stack[len(lx.stack)-1]
	if ind == top {
		return
	}
	if strings.HasPrefix(ind, top) {
		lx.stack = append(lx.stack, ind)
		lx.add("indent", "", "", line, col)
		return
	}
	for j := len(lx.stack) - 2; j >= 0; j-- {
		if lx.stack[j] == ind {
			okp := true
			for k := j + 1; k < len(lx.stack); k++ {
				if !strings.HasPrefix(lx.stack[k], ind) {
					okp = false
				}
			}
			if okp {
				for len(lx.stack) > j+1 {
					lx.stack = lx.stack[:len(lx.stack)-1]
					lx.add("outdent", "", "", line, col)
				}
				return
			}
		}
	}
	// Not related by prefix: compare columns, a tab advancing to the next multiple of 8.
	c, ok := col8(ind)
	cols := make([]int, len(lx.stack))
	for k, s := range lx.stack {
		var ok2 bool
		cols[k], ok2 = col8(s)
		ok = ok && ok2
	}
	if !ok {
		lx.doubt("indentation mixes tabs and spaces in a way the spec does not define")
	}
	n := len(lx.stack)
	switch {
	case c > cols[n-1]:
		lx.stack = append(lx.stack, ind)
		lx.add("indent", "", "", line, col)
	case c < cols[n-1]:
		for len(lx.stack) > 1 && c < cols[len(lx.stack)-1] {
			lx.stack = lx.stack[:len(lx.stack)-1]
			lx.add("outdent", "", "", line, col)
		}
		if cols[len(lx.stack)-1] != c {
			lx.fail("unindent does not match any outer indentation level")
		}
	}
}

func isLetter(r rune) bool { return r == '_' || unicode.IsLetter(r) }
func isDigit(r rune) bool  { return '0' <= r && r <= '9' }

func (lx *lexer) token(c rune) {
	line, col := lx.line, lx.col
	start := lx.i
	switch {
	case c == '"' || c == '\'':
		lx.str(line, col, start, false, false)
	case isLetter(c):
		for {
			r := lx.peek()
			if isLetter(r) || isDigit(r) {
				lx.next()
				continue
			}
			if r > utf8.RuneSelf && unicode.IsDigit(r) {
				lx.doubt("non-ASCII digit in identifier")
			}
			break
		}
		word := lx.s[start:lx.i]
		if q := lx.peek(); (q == '"' || q == '\'') && (word == "r" || word == "b" || word == "rb") {
			lx.str(line, col, start, word[0] == 'r', word[len(word)-1] == 'b')
			return
		}
		switch {
		case keywords[word]:
			lx.add("kw", word, "", line, col)
		case reserved[word]:
			lx.add("reserved", word, "", line, col)
		default:
			lx.add("id", word, "", line, col)
		}
	case isDigit(c) || c == '.' && isDigit(rune(lx.peekAt(1))):
		lx.number(line, col, start)
	default:
		p := punctAt(lx.s[lx.i:])
		if p == "" {
			lx.fail("unexpected input character %q", c)
		}
		for range p {
			lx.next()
		}
		switch p {
		case "(", "[", "{":
			lx.depth++
		case ")", "]", "}":
			if lx.depth == 0 {
				lx.fail("unexpected %q", p)
			}
			lx.depth--
		}
		lx.add("op", p, "", line, col)
	}
}

func isHex(c byte) bool {
	return '0' <= c && c <= '9' || 'a' <= c && c <= 'f' || 'A' <= c && c <= 'F'
}

func (lx *lexer) number(line, col, start int) {
	digitsWhile := func(ok func(byte) bool) int {
		n := 0
		for !lx.eof() && ok(lx.s[lx.i]) {
			lx.next()
			n++
		}
		return n
	}
	dec := func(c byte) bool { return '0' <= c && c <= '9' }
	kind := "int"
	var val string
	base := 0
	if lx.s[lx.i] == '0' {
		switch lx.peekAt(1) {
		case 'x', 'X':
			base = 16
		case 'o', 'O':
			base = 8
		case 'b', 'B':
			base = 2
		}
	}
	if base != 0 {
		lx.next()
		lx.next()
		var n int
		switch base {
		case 16:
			n = digitsWhile(isHex)
		case 8:
			n = digitsWhile(func(c byte) bool { return '0' <= c && c <= '7' })
		default:
			n = digitsWhile(func(c byte) bool { return c == '0' || c == '1' })
		}
		if n == 0 {
			lx.fail("malformed int literal")
		}
		v, ok := new(big.Int).SetString(lx.s[start+2:lx.i], base)
		if !ok {
			lx.fail("malformed int literal")
		}
		val = v.Text(10)
	} else {
		digitsWhile(dec)
		float := false
		if !lx.eof() && lx.s[lx.i] == '.' {
			float = true
			lx.next()
			digitsWhile(dec)
		}
		if c := lx.peekAt(0); c == 'e' || c == 'E' {
			k := 1
			if s := lx.peekAt(1); s == '+' || s == '-' {
				k = 2
			}
			if dec(lx.peekAt(k)) {
				float = true
				for ; k > 0; k-- {
					lx.next()
				}
				digitsWhile(dec)
			}
		}
		text := lx.s[start:lx.i]
		if float {
			kind = "float"
			exp := ""
			if i := strings.IndexAny(text, "eE"); i >= 0 {
				exp = strings.TrimLeft(text[i+1:], "+-0")
			}
			if len(exp) > 4 {
				lx.doubt("float literal with a huge exponent")
				val = "0000000000000000"
			} else if bits, ok := floatBits(ratSpelling(text)); ok {
				val = fmt.Sprintf("%016x", bits)
			} else {
				lx.doubt("float literal out of range")
				val = "0000000000000000"
			}
		} else {
			if len(text) > 1 && text[0] == '0' {
				if strings.Trim(text, "0") == "" {
					lx.doubt("int literal 00")
				} else {
					lx.fail("int literal with a leading zero")
				}
			}
			v, _ := new(big.Int).SetString(text, 10)
			val = v.Text(10)
		}
	}
	if r := lx.peek(); isLetter(r) || isDigit(r) || r > utf8.RuneSelf && unicode.IsDigit(r) {
		lx.doubt("number immediately followed by a letter or digit")
	}
	lx.add(kind, lx.s[start:lx.i], val, line, col)
}

// str scans and decodes a string or bytes literal; the prefix (if any) has been consumed.
func (lx *lexer) str(line, col, start int, raw, isBytes bool) {
	_, qs := lx.next()
	q := qs[0]
	triple := lx.peekAt(0) == q && lx.peekAt(1) == q
	if triple {
		lx.next()
		lx.next()
	}
	var val []byte
	quotes := 0
	for {
		if lx.eof() {
			panic(&rejectError{"unexpected end of file in string", line, col})
		}
		c, src := lx.next()
		if c == rune(q) {
			if !triple {
				break
			}
			quotes++
			if quotes == 3 {
				val = val[:len(val)-2]
				break
			}
			val = append(val, q)
			continue
		}
		quotes = 0
		switch {
		case c == '\n':
			if !triple {
				panic(&rejectError{"unexpected newline in string", line, col})
			}
			val = append(val, '\n')
		case c != '\\':
			val = append(val, src...)
		default:
			if lx.eof() {
				panic(&rejectError{"unexpected end of file in string", line, col})
			}
			e, esrc := lx.next()
			if raw {
				if e == '"' || e == '\'' {
					lx.doubt("escaped quotation mark in a raw string")
				}
				val = append(val, '\\')
				if e == '\n' {
					val = append(val, '\n')
				} else {
					val = append(val, esrc...)
				}
				continue
			}
			val = lx.escape(val, e, isBytes, line, col)
		}
	}
	k := "str"
	if isBytes {
		k = "bytes"
	}
	lx.add(k, lx.s[start:lx.i], hex.EncodeToString(val), line, col)
}

func (lx *lexer) escape(val []byte, e rune, isBytes bool, line, col int) []byte {
	bad := func(msg string) { panic(&rejectError{msg, line, col}) }
	hexN := func(n int) uint32 {
		var v uint32
		for k := 0; k < n; k++ {
			if lx.eof() || !isHex(lx.s[lx.i]) {
				bad("malformed escape")
			}
			c := lx.s[lx.i]
			lx.next()
			switch {
			case c <= '9':
				v = v*16 + uint32(c-'0')
			case c >= 'a':
				v = v*16 + uint32(c-'a'+10)
			default:
				v = v*16 + uint32(c-'A'+10)
			}
		}
		return v
	}
	switch e {
	case '\n':
		return val
	case 'a':
		return append(val, 7)
	case 'b':
		return append(val, 8)
	case 'f':
		return append(val, 12)
	case 'n':
		return append(val, 10)
	case 'r':
		return append(val, 13)
	case 't':
		return append(val, 9)
	case 'v':
		return append(val, 11)
	case '\\', '\'', '"':
		return append(val, byte(e))
	case '0', '1', '2', '3', '4', '5', '6', '7':
		v := int(e - '0')
		for k := 0; k < 2 && !lx.eof() && lx.s[lx.i] >= '0' && lx.s[lx.i] <= '7'; k++ {
			v = v*8 + int(lx.s[lx.i]-'0')
			lx.next()
		}
		if v > 255 {
			bad("octal escape above 255")
		}
		if v > 127 && !isBytes {
			lx.doubt("octal escape above 127 in a text string")
		}
		return append(val, byte(v))
	case 'x':
		v := hexN(2)
		if v > 127 && !isBytes {
			lx.doubt("hex escape above 127 in a text string")
		}
		return append(val, byte(v))
	case 'u', 'U':
		n := 4
		if e == 'U' {
			n = 8
		}
		v := hexN(n)
		if v > unicode.MaxRune {
			bad("code point out of range")
		}
		if v >= 0xd800 && v < 0xe000 {
			lx.doubt("surrogate code point escape")
			return append(val, "�"...)
		}
		return utf8.AppendRune(val, rune(v))
	}
	bad(fmt.Sprintf("invalid escape sequence \\%c", e))
	return nil
}
