// Literal spellings with their values, built piecewise (the value is known by
// construction, never by decoding the spelling).
package c14

import (
	"encoding/hex"
	"fmt"
	"math"
	"math/big"
	"strings"
	"unicode/utf8"

	"pgregory.net/rapid"
	"verif/harness/vk"
)

func pick[T any](t *rapid.T, xs []T) T { return xs[vk.Uniform(t, len(xs))] }

// ---------------------------------------------------------------- ints

func genIntValue(t *rapid.T) *big.Int {
	one := big.NewInt(1)
	switch vk.Uniform(t, 6) {
	case 0:
		return big.NewInt(int64(vk.Uniform(t, 12)))
	case 1:
		return big.NewInt(int64(vk.Uniform(t, 100000)))
	case 2: // neighbourhoods of powers of two
		e := pick(t, []uint{7, 8, 31, 32, 53, 62, 63, 64, 65, 127, 128, 200})
		v := new(big.Int).Lsh(one, e)
		v.Add(v, big.NewInt(int64(vk.Uniform(t, 7)-3)))
		return v
	case 3: // random magnitude up to 2^260
		nbits := 1 + vk.Uniform(t, 260)
		v := new(big.Int)
		for i := 0; i < nbits; i += 16 {
			v.Lsh(v, 16)
			v.Or(v, big.NewInt(int64(vk.Uniform(t, 1<<16))))
		}
		return v
	case 4: // int64 boundary
		v := new(big.Int).SetUint64(math.MaxInt64)
		v.Add(v, big.NewInt(int64(vk.Uniform(t, 5)-2)))
		return v
	default: // all-ones patterns: octal / binary spellings at 63..66 bits
		e := uint(60 + vk.Uniform(t, 10))
		v := new(big.Int).Lsh(one, e)
		return v.Sub(v, one)
	}
}

func mixCase(t *rapid.T, s string) string {
	b := []byte(s)
	for i, c := range b {
		if c >= 'a' && c <= 'f' && vk.Chance(t, 0.5) {
			b[i] = c - 32
		}
	}
	return string(b)
}

func genInt(t *rapid.T) *N {
	v := genIntValue(t)
	var text string
	zeros := ""
	if vk.Chance(t, 0.2) {
		zeros = strings.Repeat("0", 1+vk.Uniform(t, 3))
	}
	switch vk.Uniform(t, 5) {
	case 0, 1:
		text = v.Text(10)
	case 2:
		text = pick(t, []string{"0x", "0X"}) + zeros + mixCase(t, v.Text(16))
	case 3:
		text = pick(t, []string{"0o", "0O"}) + zeros + v.Text(8)
	default:
		text = pick(t, []string{"0b", "0B"}) + zeros + v.Text(2)
	}
	return &N{K: "int", Text: text, Val: v.Text(10)}
}

// ---------------------------------------------------------------- floats

func digits(t *rapid.T, min, max int) string {
	n := min + vk.Uniform(t, max-min+1)
	var sb strings.Builder
	for i := 0; i < n; i++ {
		sb.WriteByte(byte('0' + vk.Uniform(t, 10)))
	}
	return sb.String()
}

// floatBits is the value of a decimal spelling: the nearest double, ties to
// even, computed exactly with math/big. ok is false when it overflows.
func floatBits(text string) (uint64, bool) {
	r, ok := new(big.Rat).SetString(text)
	if !ok {
		return 0, false
	}
	f, _ := r.Float64()
	if math.IsInf(f, 0) {
		return 0, false
	}
	return math.Float64bits(f), true
}

// ratSpelling pads a float spelling so that big.Rat accepts it (digits on
// both sides of the point); the denoted value is unchanged.
func ratSpelling(text string) string {
	mant, exp := text, ""
	if i := strings.IndexAny(text, "eE"); i >= 0 {
		mant, exp = text[:i], text[i:]
	}
	if strings.HasPrefix(mant, ".") {
		mant = "0" + mant
	}
	if strings.HasSuffix(mant, ".") {
		mant += "0"
	}
	return mant + exp
}

func genFloat(t *rapid.T) *N {
	for try := 0; ; try++ {
		var mant string
		switch vk.Uniform(t, 5) {
		case 0:
			mant = digits(t, 1, 4) + "."
		case 1:
			mant = digits(t, 1, 18) + "." + digits(t, 1, 18)
		case 2:
			mant = "." + digits(t, 1, 20)
		case 3:
			mant = digits(t, 1, 20) // exponent required
		default:
			mant = pick(t, []string{"0.", "1.", ".5", "0.0", "1.7976931348623157", "1.7976931348623158", "4.9", "2.4703282292062327", "2.4703282292062328",
				"9007199254740993", "9007199254740992.5", "0.1", "2.2250738585072011", "2.2250738585072014", "00.5", "007."})
		}
		exp := ""
		needExp := !strings.Contains(mant, ".")
		if needExp || vk.Chance(t, 0.5) {
			var e int
			switch vk.Uniform(t, 5) {
			case 0:
				e = vk.Uniform(t, 10)
			case 1:
				e = vk.Uniform(t, 40) - 20
			case 2:
				e = 290 + vk.Uniform(t, 19) // near the overflow limit
			case 3:
				e = -(300 + vk.Uniform(t, 45)) // subnormals and underflow
			default:
				e = vk.Uniform(t, 700) - 350
			}
			sign := ""
			if e < 0 {
				sign = "-"
				e = -e
			} else if vk.Chance(t, 0.4) {
				sign = "+"
			}
			ds := fmt.Sprint(e)
			if vk.Chance(t, 0.15) {
				ds = "0" + ds
			}
			exp = pick(t, []string{"e", "E"}) + sign + ds
		}
		text := mant + exp
		bits, ok := floatBits(ratSpelling(text))
		if !ok {
			if try > 5 {
				return &N{K: "float", Text: "1.5", Val: fmt.Sprintf("%016x", math.Float64bits(1.5))}
			}
			continue // overflow: the spec does not say what an out-of-range literal means
		}
		return &N{K: "float", Text: text, Val: fmt.Sprintf("%016x", bits)}
	}
}

// ---------------------------------------------------------------- strings and bytes

type piece struct {
	src        string
	val        []byte
	shortOctal bool
	quoteRun   bool // an unescaped occurrence of the delimiter in a triple-quoted literal
}

var plainRunes = []rune("abzAZ09 _-+=*/.,:;!?#$%&()[]{}<>@^`|~")
var wideRunes = []rune{'é', 'ß', 'Ω', '世', '界', '😀', 0xA0, 0x2028, 0xFFFD, 0x10FFFF, 0x7f}

func genStringLit(t *rapid.T, isBytes bool, eol func() string) *N {
	q := pick(t, []string{`"`, `'`})
	triple := vk.Chance(t, 0.3)
	raw := vk.Chance(t, 0.25)
	var ps []piece
	n := vk.Uniform(t, 9)
	if vk.Chance(t, 0.1) {
		n = 12 + vk.Uniform(t, 20)
	}
	maxByte := 128
	if isBytes {
		maxByte = 256
	}
	for i := 0; i < n; i++ {
		var p piece
		k := vk.Uniform(t, 14)
		switch {
		case k <= 2:
			r := pick(t, plainRunes)
			p = piece{src: string(r), val: []byte(string(r))}
		case k == 3:
			r := pick(t, wideRunes)
			p = piece{src: string(r), val: []byte(string(r))}
		case k == 4: // the other quote, plain
			o := `'`
			if q == `'` {
				o = `"`
			}
			p = piece{src: o, val: []byte(o)}
		case k == 5: // the delimiter itself
			if triple && vk.Chance(t, 0.6) {
				p = piece{src: q, val: []byte(q), quoteRun: true}
			} else if !raw {
				p = piece{src: `\` + q, val: []byte(q)}
			} else {
				p = piece{src: "x", val: []byte("x")}
			}
		case k == 6 && triple: // unescaped line ending: always a line feed
			p = piece{src: pick(t, []string{"\n", "\r\n", "\r"}), val: []byte("\n")}
		case raw:
			// backslash pairs keep both characters; backslash-newline keeps backslash and a line feed
			switch vk.Uniform(t, 4) {
			case 0:
				p = piece{src: `\\`, val: []byte(`\\`)}
			case 1:
				e := eol()
				p = piece{src: `\` + e, val: []byte("\\\n")}
			default:
				c := pick(t, []rune("nxu0aUq é"))
				p = piece{src: `\` + string(c), val: []byte(`\` + string(c))}
			}
		case k == 7:
			c := pick(t, []string{"a\a", "b\b", "f\f", "n\n", "r\r", "t\t", "v\v", "\\\\", "''", `""`})
			p = piece{src: `\` + c[:1], val: []byte(c[1:])}
		case k == 8: // octal, 1-3 digits
			v := vk.Uniform(t, maxByte)
			s := fmt.Sprintf("%o", v)
			for len(s) < 3 && vk.Chance(t, 0.3) {
				s = "0" + s
			}
			p = piece{src: `\` + s, val: []byte{byte(v)}, shortOctal: len(s) < 3}
		case k == 9:
			v := vk.Uniform(t, maxByte)
			p = piece{src: `\x` + mixCase(t, fmt.Sprintf("%02x", v)), val: []byte{byte(v)}}
		case k == 10:
			r := rune(vk.Uniform(t, 0x10000))
			if vk.Chance(t, 0.3) {
				r = pick(t, []rune{0, 0x7f, 0x80, 0x7ff, 0x800, 0xd7ff, 0xe000, 0xfffd, 0xffff, 'A'})
			}
			if r >= 0xd800 && r < 0xe000 {
				r = 0xe9
			}
			p = piece{src: `\u` + mixCase(t, fmt.Sprintf("%04x", r)), val: utf8.AppendRune(nil, r)}
		case k == 11:
			r := rune(vk.Uniform(t, 0x110000))
			if vk.Chance(t, 0.3) {
				r = pick(t, []rune{0, 0x41, 0xffff, 0x10000, 0x10ffff, 0x1f600})
			}
			if r >= 0xd800 && r < 0xe000 {
				r = 0x1f600
			}
			p = piece{src: `\U` + mixCase(t, fmt.Sprintf("%08x", r)), val: utf8.AppendRune(nil, r)}
		case k == 12: // escaped line ending: ignored
			p = piece{src: `\` + eol()}
		default:
			r := pick(t, plainRunes)
			p = piece{src: string(r), val: []byte(string(r))}
		}
		ps = append(ps, p)
	}
	// Repairs that keep the intended meaning of each piece.
	var out []piece
	run := 0
	for i, p := range ps {
		if len(out) > 0 && out[len(out)-1].shortOctal && len(p.src) > 0 && p.src[0] >= '0' && p.src[0] <= '7' {
			prev := &out[len(out)-1]
			for len(prev.src) < 4 {
				prev.src = `\0` + prev.src[1:]
			}
			prev.shortOctal = false
		}
		if len(out) > 0 && strings.HasSuffix(out[len(out)-1].src, "\r") && strings.HasPrefix(p.src, "\n") {
			p = piece{src: "x", val: []byte("x")} // CR then LF would read as one CRLF
		}
		if p.quoteRun {
			run++
			if run > 2 || i == len(ps)-1 {
				// three delimiters would end the literal; one before the closing ones too
				p = piece{src: "x", val: []byte("x")}
				run = 0
			}
		} else {
			run = 0
		}
		out = append(out, p)
	}
	if len(out) > 0 && out[len(out)-1].quoteRun {
		out = append(out, piece{src: "x", val: []byte("x")})
	}
	var src strings.Builder
	var val []byte
	if raw {
		src.WriteString("r")
	}
	if isBytes {
		src.WriteString("b")
	}
	d := q
	if triple {
		d = q + q + q
	}
	src.WriteString(d)
	for _, p := range out {
		src.WriteString(p.src)
		val = append(val, p.val...)
	}
	src.WriteString(d)
	k := "str"
	if isBytes {
		k = "bytes"
	}
	return &N{K: k, Text: src.String(), Val: hex.EncodeToString(val)}
}

func strLit(s string) *N {
	// a plain double-quoted spelling of an identifier-like string
	return &N{K: "str", Text: `"` + s + `"`, Val: hex.EncodeToString([]byte(s))}
}
