//go:build verif

package c14

import (
	"fmt"
	"testing"

	"go.starlark.net/syntax"

	"verif/harness/vk"
)

// SurrCase: one \u or \U escape that names a surrogate code point (U+D800..U+DFFF), in a text or a bytes literal.
// A Starlark string cannot hold "the code point" as well-formed UTF-8, and the package rejects these escapes
// ("As in Go, surrogates are disallowed"). Whatever the scanner does, it may not silently give the escape another
// meaning: the literal is either rejected with a positioned error, or its value is the three-byte generalised
// UTF-8 form of exactly that code point. Any other value (U+FFFD, say) is a different string than was written.
type SurrCase struct {
	N     int  `json:"n"`
	Big   bool `json:"big,omitempty"`   // \UXXXXXXXX instead of \uXXXX
	Bytes bool `json:"bytes,omitempty"` // b"..." literal
	Upper bool `json:"upper,omitempty"` // hex digits in upper case
	Pad   int  `json:"pad,omitempty"`   // characters before the literal on its line
}

func checkSurrogate(c SurrCase) error {
	if c.N < 0xd800 || c.N > 0xdfff || c.Pad < 0 || c.Pad > 100 {
		return fmt.Errorf("malformed case")
	}
	f := "%04x"
	if c.Upper {
		f = "%04X"
	}
	esc := `\u` + fmt.Sprintf(f, c.N)
	if c.Big {
		esc = `\U0000` + fmt.Sprintf(f, c.N)
	}
	prefix := ""
	if c.Bytes {
		prefix = "b"
	}
	lhs := "x"
	for len(lhs) < c.Pad {
		lhs += "y"
	}
	src := fmt.Sprintf("%s = %s\"a%sz\"\n", lhs, prefix, esc)
	file, err := syntax.Parse("s.star", src, 0)
	vk.S.Class(fmt.Sprintf("surrogate:big=%v:bytes=%v", c.Big, c.Bytes))
	if c.N == 0xd800 || c.N == 0xdbff || c.N == 0xdc00 || c.N == 0xdfff {
		vk.S.NonTrivial(src)
		vk.S.Sample("surrogate", "boundary", map[string]any{"src": src, "err": fmt.Sprint(err)})
	}
	if err != nil {
		se, ok := err.(syntax.Error)
		if !ok {
			return fmt.Errorf("%q: rejected with an unpositioned error %T: %v", src, err, err)
		}
		// (the position is that of the literal: its first character, or the quote after the b prefix)
		if start := len(lhs) + 4; se.Pos.Line != 1 || int(se.Pos.Col) < start || int(se.Pos.Col) >= len(src) {
			return fmt.Errorf("%q: rejected at %d:%d, the literal spans 1:%d-%d (%v)", src, se.Pos.Line, se.Pos.Col, start, len(src)-1, err)
		}
		return nil
	}
	as, ok := file.Stmts[0].(*syntax.AssignStmt)
	if !ok {
		return fmt.Errorf("%q: parsed as %T", src, file.Stmts[0])
	}
	lit, ok := as.RHS.(*syntax.Literal)
	if !ok {
		return fmt.Errorf("%q: right-hand side parsed as %T", src, as.RHS)
	}
	want := "a" + string([]byte{0xe0 | byte(c.N>>12), 0x80 | byte(c.N>>6)&0x3f, 0x80 | byte(c.N)&0x3f}) + "z"
	if got, _ := lit.Value.(string); got != want {
		return fmt.Errorf("%q: accepted with value %q: the escape names U+%04X, which is neither rejected nor kept", src, lit.Value, c.N)
	}
	return nil
}

var subSurrogate = vk.Register("surrogate-escape", checkSurrogate)

// Every surrogate code point x {\u, \U} x {text, bytes} x {lower, upper case digits}: 16384 literals.
func TestPropSurrogateEscapes(t *testing.T) {
	vk.S.SetExhaustive("surrogate-escapes-all-2048-code-points-x-4-forms-x-case", true)
	vk.Enum(t, subSurrogate, func(yield func(SurrCase) bool) {
		i := 0
		for n := 0xd800; n <= 0xdfff; n++ {
			for form := 0; form < 8; form++ {
				i++
				if vk.Mine(i) && !yield(SurrCase{N: n, Big: form&1 != 0, Bytes: form&2 != 0, Upper: form&4 != 0, Pad: (n + form) % 40}) {
					return
				}
			}
		}
	})
}
