// Generators of IR trees and layouts (all randomness from rapid).
package c14

import (
	"pgregory.net/rapid"
	"verif/harness/vk"
)

var names = []string{"a", "b", "c", "x", "y", "z", "f", "g", "foo", "_", "_x1", "l0ng_name", "é", "世界", "Ωmega", "assert", "None", "True",
	"print", "r", "b", "rb", "i", "n", "iff", "notx", "inn", "lambda_", "e5", "x0f"}

type gen struct {
	t      *rapid.T
	budget int
}

func (g *gen) u(n int) int        { return vk.Uniform(g.t, n) }
func (g *gen) p(p float64) bool   { return vk.Chance(g.t, p) }
func (g *gen) id() *N             { return &N{K: "id", Name: pick(g.t, names)} }
func (g *gen) eol() string        { return pick(g.t, []string{"\n", "\r\n", "\r"}) }
func (g *gen) exprs(n, d int) []*N {
	out := make([]*N, n)
	for i := range out {
		out[i] = g.expr(d)
	}
	return out
}

func (g *gen) lit() *N {
	switch g.u(8) {
	case 0, 1, 2:
		return genInt(g.t)
	case 3, 4:
		return genFloat(g.t)
	case 5, 6:
		return genStringLit(g.t, false, g.eol)
	default:
		return genStringLit(g.t, true, g.eol)
	}
}

func (g *gen) leaf() *N {
	switch g.u(12) {
	case 0, 1, 2, 3, 4, 5:
		return g.id()
	case 6, 7, 8:
		return g.lit()
	case 9:
		return &N{K: "tuple"}
	case 10:
		return &N{K: "list"}
	default:
		return &N{K: "dict"}
	}
}

func (g *gen) binop() string {
	// every precedence level equally often, then an operator of the level
	levels := [][]string{{"or"}, {"and"}, {"==", "!=", "<", ">", "<=", ">=", "in", "not in"}, {"|"}, {"^"}, {"&"}, {"<<", ">>"}, {"-", "+"}, {"*", "%", "/", "//"}}
	return pick(g.t, pick(g.t, levels))
}

func (g *gen) expr(d int) *N {
	g.budget--
	if d <= 0 || g.budget <= 0 {
		return g.leaf()
	}
	switch g.u(30) {
	case 0, 1, 2:
		return g.leaf()
	case 3, 4, 5, 6, 7, 8, 9, 10:
		return &N{K: "bin", Op: g.binop(), A: []*N{g.expr(d - 1), g.expr(d - 1)}}
	case 11, 12, 13:
		return &N{K: "un", Op: pick(g.t, []string{"-", "+", "~", "not", "not", "-"}), A: []*N{g.expr(d - 1)}}
	case 14, 15:
		return &N{K: "cond", A: []*N{g.expr(d - 1), g.expr(d - 1), g.expr(d - 1)}}
	case 16, 17:
		a := g.params(d - 1)
		return &N{K: "lambda", A: append(a, g.expr(d-1))}
	case 18:
		return &N{K: "tuple", A: g.exprs(g.u(4), d-1)}
	case 19:
		return &N{K: "list", A: g.exprs(g.u(4), d-1)}
	case 20:
		n := &N{K: "dict"}
		for k := g.u(3); k > 0; k-- {
			n.A = append(n.A, g.entry(d-1))
		}
		return n
	case 21:
		return &N{K: "lcomp", A: append([]*N{g.expr(d - 1)}, g.clauses(d-1)...)}
	case 22:
		return &N{K: "dcomp", A: append([]*N{g.entry(d - 1)}, g.clauses(d-1)...)}
	case 23, 24:
		return &N{K: "dot", A: []*N{g.expr(d - 1), g.id()}}
	case 25:
		return &N{K: "index", A: []*N{g.expr(d - 1), g.expr(d - 1)}}
	case 26, 27:
		n := &N{K: "slice", A: []*N{g.expr(d - 1), nil, nil, nil}}
		for i := 1; i <= 3; i++ {
			if g.p(0.5) {
				n.A[i] = g.expr(d - 1)
			}
		}
		return n
	default:
		return &N{K: "call", A: append([]*N{g.expr(d - 1)}, g.args(d-1)...)}
	}
}

func (g *gen) entry(d int) *N { return &N{K: "entry", A: []*N{g.expr(d), g.expr(d)}} }

func (g *gen) clauses(d int) []*N {
	out := []*N{{K: "cfor", A: []*N{g.target(2), g.expr(d)}}}
	for k := g.u(3); k > 0; k-- {
		if g.p(0.5) {
			out = append(out, &N{K: "cfor", A: []*N{g.target(2), g.expr(d)}})
		} else {
			out = append(out, &N{K: "cif", A: []*N{g.expr(d)}})
		}
	}
	return out
}

// target is an assignable expression most of the time; the parser accepts any expression.
func (g *gen) target(d int) *N {
	g.budget--
	switch k := g.u(12); {
	case d <= 0 || k < 5:
		return g.id()
	case k < 7:
		n := &N{K: "tuple"}
		for j := 1 + g.u(3); j > 0; j-- {
			n.A = append(n.A, g.target(d-1))
		}
		return n
	case k == 7:
		n := &N{K: "list"}
		for j := g.u(3); j > 0; j-- {
			n.A = append(n.A, g.target(d-1))
		}
		return n
	case k == 8:
		return &N{K: "dot", A: []*N{g.target(d - 1), g.id()}}
	case k == 9:
		return &N{K: "index", A: []*N{g.target(d - 1), g.expr(1)}}
	default:
		return g.expr(d)
	}
}

func (g *gen) params(d int) []*N {
	var out []*N
	if g.p(0.3) {
		return out
	}
	if g.p(0.8) { // the documented order
		for k := g.u(3); k > 0; k-- {
			out = append(out, g.id())
		}
		for k := g.u(2); k > 0; k-- {
			out = append(out, &N{K: "pdef", A: []*N{g.id(), g.expr(d)}})
		}
		switch g.u(4) {
		case 0:
			out = append(out, &N{K: "pargs", A: []*N{g.id()}})
		case 1:
			out = append(out, &N{K: "pstar"}, g.id())
		}
		if len(out) > 0 && (out[len(out)-1].K == "pargs" || out[len(out)-1].K == "id") && g.p(0.4) {
			out = append(out, &N{K: "pdef", A: []*N{g.id(), g.expr(d)}})
		}
		if g.p(0.3) {
			out = append(out, &N{K: "pkw", A: []*N{g.id()}})
		}
		return out
	}
	for k := 1 + g.u(4); k > 0; k-- { // any order: the grammar does not enforce it
		switch g.u(5) {
		case 0:
			out = append(out, g.id())
		case 1:
			out = append(out, &N{K: "pdef", A: []*N{g.id(), g.expr(d)}})
		case 2:
			out = append(out, &N{K: "pstar"})
		case 3:
			out = append(out, &N{K: "pargs", A: []*N{g.id()}})
		default:
			out = append(out, &N{K: "pkw", A: []*N{g.id()}})
		}
	}
	return out
}

func (g *gen) args(d int) []*N {
	var out []*N
	for k := g.u(5); k > 0; k-- {
		switch g.u(6) {
		case 0, 1, 2:
			out = append(out, g.expr(d))
		case 3:
			out = append(out, &N{K: "named", A: []*N{g.id(), g.expr(d)}})
		case 4:
			out = append(out, &N{K: "star", A: []*N{g.expr(d)}})
		default:
			out = append(out, &N{K: "sstar", A: []*N{g.expr(d)}})
		}
	}
	return out
}

func (g *gen) smallStmt(d int) *N {
	switch g.u(14) {
	case 0, 1, 2:
		return &N{K: "expr", A: []*N{g.expr(d)}}
	case 3, 4, 5:
		return &N{K: "assign", Op: "=", A: []*N{g.target(2), g.expr(d)}}
	case 6, 7:
		return &N{K: "assign", Op: pick(g.t, augOps[1:]), A: []*N{g.target(1), g.expr(d)}}
	case 8:
		return &N{K: "return"}
	case 9:
		return &N{K: "return", A: []*N{g.expr(d)}}
	case 10:
		return &N{K: pick(g.t, []string{"break", "continue", "pass"})}
	case 11:
		return &N{K: "pass"}
	case 12:
		return g.load()
	default:
		return &N{K: "expr", A: []*N{g.lit()}}
	}
}

func (g *gen) load() *N {
	n := &N{K: "load"}
	if g.p(0.8) {
		n.A = append(n.A, strLit(pick(g.t, []string{"m.star", "//pkg:defs.bzl", "é/世.star", ""})))
	} else {
		n.A = append(n.A, genStringLit(g.t, false, g.eol))
	}
	for k := 1 + g.u(3); k > 0; k-- {
		it := &N{K: "litem"}
		if g.p(0.4) {
			it.Name = pick(g.t, names)
		}
		if g.p(0.85) {
			s := strLit(pick(g.t, names))
			if g.p(0.3) {
				s.Text = "'" + s.Text[1:len(s.Text)-1] + "'"
			}
			it.A = []*N{s}
		} else {
			it.A = []*N{genStringLit(g.t, false, g.eol)}
		}
		n.A = append(n.A, it)
	}
	return n
}

func (g *gen) body(d int) []*N {
	var out []*N
	for k := 1 + g.u(3); k > 0; k-- {
		out = append(out, g.stmt(d))
	}
	return out
}

func (g *gen) stmt(d int) *N {
	g.budget--
	if d <= 1 || g.budget <= 0 || g.p(0.55) {
		return g.smallStmt(d - 1)
	}
	switch g.u(6) {
	case 0, 1:
		a := append([]*N{g.id()}, g.params(d-2)...)
		return &N{K: "def", A: a, B: g.body(d - 1)}
	case 2, 3:
		return g.ifStmt(d, 0)
	case 4:
		return &N{K: "for", A: []*N{g.target(2), g.expr(d - 2)}, B: g.body(d - 1)}
	default:
		return &N{K: "while", A: []*N{g.expr(d - 2)}, B: g.body(d - 1)}
	}
}

func (g *gen) ifStmt(d, chain int) *N {
	n := &N{K: "if", A: []*N{g.expr(d - 2)}, B: g.body(d - 1)}
	switch g.u(4) {
	case 0:
		n.C = g.body(d - 1)
	case 1, 2:
		if chain < 3 {
			n.Elif = true
			n.C = []*N{g.ifStmt(d, chain+1)}
		}
	}
	return n
}

func genFile(t *rapid.T, budget int) *N {
	g := &gen{t: t, budget: budget}
	f := &N{K: "file"}
	for k := g.u(4); k >= 0; k-- {
		f.B = append(f.B, g.stmt(6))
	}
	return f
}

func genLayout(t *rapid.T) Layout {
	L := Layout{Seed: rapid.Uint64().Draw(t, "seed")}
	L.Space = vk.Uniform(t, 3)
	L.Parens = vk.Uniform(t, 3)
	L.Comments = vk.Chance(t, 0.5)
	L.Conts = vk.Chance(t, 0.4)
	L.BrkNL = vk.Chance(t, 0.5)
	L.Semis = vk.Chance(t, 0.5)
	L.OneLine = vk.Chance(t, 0.5)
	L.Blank = vk.Chance(t, 0.5)
	L.Trail = vk.Chance(t, 0.5)
	L.EOL = pick(t, []int{0, 0, 1, 1, 2, 3})
	L.Indent = vk.Uniform(t, 3)
	L.NoFinalNL = vk.Chance(t, 0.25)
	L.Retain = vk.Chance(t, 0.2)
	return L
}
