// Conversion of the tree returned by the parser into the IR (ParenExpr is
// dropped), with the start position the implementation reports for each node.
package c14

import (
	"encoding/hex"
	"fmt"
	"math"
	"math/big"

	"go.starlark.net/syntax"
)

func at(n *N, p syntax.Position) *N {
	n.Line, n.Col = int(p.Line), int(p.Col)
	return n
}

func convFile(f *syntax.File) *N {
	return &N{K: "file", B: convStmts(f.Stmts), NoPos: true}
}

func convStmts(ss []syntax.Stmt) []*N {
	if ss == nil {
		return nil
	}
	out := make([]*N, len(ss))
	for i, s := range ss {
		out[i] = convStmt(s)
	}
	return out
}

func convStmt(s syntax.Stmt) *N {
	start := syntax.Start(s)
	switch s := s.(type) {
	case *syntax.AssignStmt:
		return at(&N{K: "assign", Op: s.Op.String(), A: []*N{convExpr(s.LHS), convExpr(s.RHS)}}, start)
	case *syntax.BranchStmt:
		return at(&N{K: s.Token.String()}, start)
	case *syntax.DefStmt:
		a := []*N{convExpr(s.Name)}
		a = append(a, convParams(s.Params)...)
		return at(&N{K: "def", A: a, B: convStmts(s.Body)}, start)
	case *syntax.ExprStmt:
		return at(&N{K: "expr", A: []*N{convExpr(s.X)}}, start)
	case *syntax.ForStmt:
		return at(&N{K: "for", A: []*N{convExpr(s.Vars), convExpr(s.X)}, B: convStmts(s.Body)}, start)
	case *syntax.WhileStmt:
		return at(&N{K: "while", A: []*N{convExpr(s.Cond)}, B: convStmts(s.Body)}, start)
	case *syntax.IfStmt:
		n := &N{K: "if", A: []*N{convExpr(s.Cond)}, B: convStmts(s.True), C: convStmts(s.False)}
		if len(s.False) == 1 {
			if e, ok := s.False[0].(*syntax.IfStmt); ok && e.If == s.ElsePos {
				n.Elif = true
			}
		}
		return at(n, start)
	case *syntax.LoadStmt:
		a := []*N{convExpr(s.Module)}
		for i := range s.From {
			from, to := s.From[i], s.To[i]
			lit := &N{K: "str", Val: hex.EncodeToString([]byte(from.Name)), Line: int(from.NamePos.Line), Col: int(from.NamePos.Col) - 1}
			it := &N{K: "litem", A: []*N{lit}, NoPos: true}
			if to != from {
				it.Name = to.Name
				it.NoPos = false
				at(it, to.NamePos)
			}
			a = append(a, it)
		}
		return at(&N{K: "load", A: a}, start)
	case *syntax.ReturnStmt:
		n := &N{K: "return"}
		if s.Result != nil {
			n.A = []*N{convExpr(s.Result)}
		}
		return at(n, start)
	}
	panic(fmt.Sprintf("conv: unexpected statement %T", s))
}

func convParams(ps []syntax.Expr) []*N {
	var out []*N
	for _, p := range ps {
		start := syntax.Start(p)
		switch p := p.(type) {
		case *syntax.Ident:
			out = append(out, convExpr(p))
		case *syntax.BinaryExpr:
			if p.Op != syntax.EQ {
				panic("conv: parameter is a binary expression " + p.Op.String())
			}
			out = append(out, at(&N{K: "pdef", A: []*N{convExpr(p.X), convExpr(p.Y)}}, start))
		case *syntax.UnaryExpr:
			switch {
			case p.Op == syntax.STAR && p.X == nil:
				out = append(out, at(&N{K: "pstar"}, start))
			case p.Op == syntax.STAR:
				out = append(out, at(&N{K: "pargs", A: []*N{convExpr(p.X)}}, start))
			case p.Op == syntax.STARSTAR:
				out = append(out, at(&N{K: "pkw", A: []*N{convExpr(p.X)}}, start))
			default:
				panic("conv: parameter is a unary expression " + p.Op.String())
			}
		default:
			panic(fmt.Sprintf("conv: unexpected parameter %T", p))
		}
	}
	return out
}

func convExprs(xs []syntax.Expr) []*N {
	out := make([]*N, len(xs))
	for i, x := range xs {
		out[i] = convExpr(x)
	}
	return out
}

func convClauses(cs []syntax.Node) []*N {
	var out []*N
	for _, c := range cs {
		switch c := c.(type) {
		case *syntax.ForClause:
			out = append(out, at(&N{K: "cfor", A: []*N{convExpr(c.Vars), convExpr(c.X)}}, syntax.Start(c)))
		case *syntax.IfClause:
			out = append(out, at(&N{K: "cif", A: []*N{convExpr(c.Cond)}}, syntax.Start(c)))
		default:
			panic(fmt.Sprintf("conv: unexpected clause %T", c))
		}
	}
	return out
}

func convExpr(x syntax.Expr) *N {
	if x == nil {
		return nil
	}
	start := syntax.Start(x)
	switch x := x.(type) {
	case *syntax.ParenExpr:
		return convExpr(x.X)
	case *syntax.Ident:
		return at(&N{K: "id", Name: x.Name}, start)
	case *syntax.Literal:
		n := &N{Text: x.Raw}
		switch x.Token {
		case syntax.INT:
			n.K = "int"
			switch v := x.Value.(type) {
			case int64:
				n.Val = big.NewInt(v).Text(10)
			case *big.Int:
				n.Val = v.Text(10)
			default:
				panic(fmt.Sprintf("conv: INT literal holds %T", x.Value))
			}
		case syntax.FLOAT:
			n.K = "float"
			n.Val = fmt.Sprintf("%016x", math.Float64bits(x.Value.(float64)))
		case syntax.STRING:
			n.K = "str"
			n.Val = hex.EncodeToString([]byte(x.Value.(string)))
		case syntax.BYTES:
			n.K = "bytes"
			n.Val = hex.EncodeToString([]byte(x.Value.(string)))
		default:
			panic("conv: literal token " + x.Token.String())
		}
		return at(n, start)
	case *syntax.UnaryExpr:
		return at(&N{K: "un", Op: x.Op.String(), A: []*N{convExpr(x.X)}}, start)
	case *syntax.BinaryExpr:
		return at(&N{K: "bin", Op: x.Op.String(), A: []*N{convExpr(x.X), convExpr(x.Y)}}, start)
	case *syntax.CondExpr:
		return at(&N{K: "cond", A: []*N{convExpr(x.True), convExpr(x.Cond), convExpr(x.False)}}, start)
	case *syntax.LambdaExpr:
		a := convParams(x.Params)
		a = append(a, convExpr(x.Body))
		return at(&N{K: "lambda", A: a}, start)
	case *syntax.TupleExpr:
		return at(&N{K: "tuple", A: convExprs(x.List)}, start)
	case *syntax.ListExpr:
		return at(&N{K: "list", A: convExprs(x.List)}, start)
	case *syntax.DictExpr:
		return at(&N{K: "dict", A: convExprs(x.List)}, start)
	case *syntax.DictEntry:
		return at(&N{K: "entry", A: []*N{convExpr(x.Key), convExpr(x.Value)}}, start)
	case *syntax.Comprehension:
		k := "lcomp"
		if x.Curly {
			k = "dcomp"
		}
		a := []*N{convExpr(x.Body)}
		a = append(a, convClauses(x.Clauses)...)
		return at(&N{K: k, A: a}, start)
	case *syntax.DotExpr:
		return at(&N{K: "dot", A: []*N{convExpr(x.X), convExpr(x.Name)}}, start)
	case *syntax.IndexExpr:
		return at(&N{K: "index", A: []*N{convExpr(x.X), convExpr(x.Y)}}, start)
	case *syntax.SliceExpr:
		return at(&N{K: "slice", A: []*N{convExpr(x.X), convExpr(x.Lo), convExpr(x.Hi), convExpr(x.Step)}}, start)
	case *syntax.CallExpr:
		a := []*N{convExpr(x.Fn)}
		for _, arg := range x.Args {
			s := syntax.Start(arg)
			switch arg := arg.(type) {
			case *syntax.BinaryExpr:
				if arg.Op == syntax.EQ {
					a = append(a, at(&N{K: "named", A: []*N{convExpr(arg.X), convExpr(arg.Y)}}, s))
					continue
				}
			case *syntax.UnaryExpr:
				if arg.Op == syntax.STAR {
					a = append(a, at(&N{K: "star", A: []*N{convExpr(arg.X)}}, s))
					continue
				}
				if arg.Op == syntax.STARSTAR {
					a = append(a, at(&N{K: "sstar", A: []*N{convExpr(arg.X)}}, s))
					continue
				}
			}
			a = append(a, convExpr(arg))
		}
		return at(&N{K: "call", A: a}, start)
	}
	panic(fmt.Sprintf("conv: unexpected expression %T", x))
}
