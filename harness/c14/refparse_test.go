// Reference recursive-descent parser (recogniser that also builds the IR),
// written from the grammar boxes and the prose of doc/spec.md and
// syntax/grammar.txt, with operator precedence from ir_test.go.
package c14

import "fmt"

type rparser struct {
	toks   []Tok
	i      int
	unsure string
}

// pe is a parsed expression: the node and the position of its first token
// (which is an enclosing parenthesis if there is one).
type pe struct {
	n    *N
	l, c int
}

func (p *rparser) peek() Tok {
	if p.i < len(p.toks) {
		return p.toks[p.i]
	}
	last := Tok{K: "eof", Line: 1, Col: 1}
	if len(p.toks) > 0 {
		last.Line, last.Col = p.toks[len(p.toks)-1].Line, p.toks[len(p.toks)-1].Col
	}
	return last
}
func (p *rparser) peek2() Tok {
	if p.i+1 < len(p.toks) {
		return p.toks[p.i+1]
	}
	return Tok{K: "eof"}
}
func (p *rparser) next() Tok { t := p.peek(); p.i++; return t }
func (p *rparser) is(k, s string) bool {
	t := p.peek()
	return t.K == k && t.S == s
}
func (p *rparser) isOp(s string) bool { return p.is("op", s) }
func (p *rparser) isKw(s string) bool { return p.is("kw", s) }
func (p *rparser) fail(format string, args ...any) {
	t := p.peek()
	panic(&rejectError{fmt.Sprintf(format, args...) + fmt.Sprintf(" (at %s %q)", t.K, t.S), t.Line, t.Col})
}
func (p *rparser) expect(k, s string) Tok {
	if !p.is(k, s) {
		p.fail("want %q", s)
	}
	return p.next()
}
func (p *rparser) doubt(why string) {
	if p.unsure == "" {
		p.unsure = why
	}
}

func mk(k string, l, c int, a ...*N) *N { return &N{K: k, A: a, Line: l, Col: c} }

// refParse returns the tree of text, or an error when the grammar does not
// generate it; unsure is non-empty when no verdict is claimed.
func refParse(text string) (tree *N, toks []Tok, unsure string, err error) {
	toks, unsure, err = refLex(text)
	if err != nil {
		return nil, toks, unsure, err
	}
	p := &rparser{toks: toks}
	defer func() {
		if r := recover(); r != nil {
			if re, ok := r.(*rejectError); ok {
				tree, err = nil, re
				if unsure == "" {
					unsure = p.unsure
				}
				return
			}
			panic(r)
		}
	}()
	tree = &N{K: "file", NoPos: true}
	for p.peek().K != "eof" {
		if p.peek().K == "nl" {
			p.next()
			continue
		}
		tree.B = p.stmt(tree.B)
	}
	if unsure == "" {
		unsure = p.unsure
	}
	return tree, toks, unsure, nil
}

// ---------------------------------------------------------------- statements

func (p *rparser) stmt(out []*N) []*N {
	t := p.peek()
	if t.K == "kw" {
		switch t.S {
		case "def":
			return append(out, p.def())
		case "if":
			return append(out, p.ifStmt())
		case "for":
			p.next()
			vars := p.loopVars()
			p.expect("kw", "in")
			x := p.expression(0)
			n := mk("for", t.Line, t.Col, vars.n, x.n)
			n.B = p.suite()
			return append(out, n)
		case "while":
			p.next()
			cond := p.test()
			n := mk("while", t.Line, t.Col, cond.n)
			n.B = p.suite()
			return append(out, n)
		}
	}
	return p.simpleLine(out)
}

func (p *rparser) simpleLine(out []*N) []*N {
	for {
		out = append(out, p.small())
		if !p.isOp(";") {
			break
		}
		p.next()
		if p.peek().K == "nl" {
			break
		}
	}
	if p.peek().K != "nl" {
		p.fail("want end of line")
	}
	p.next()
	return out
}

func (p *rparser) suite() []*N {
	p.expect("op", ":")
	if p.peek().K != "nl" {
		return p.simpleLine(nil)
	}
	p.next()
	if p.peek().K != "indent" {
		p.fail("want an indented block")
	}
	p.next()
	var out []*N
	for p.peek().K != "outdent" {
		if p.peek().K == "eof" {
			p.fail("unterminated block")
		}
		out = p.stmt(out)
	}
	p.next()
	return out
}

func isAug(t Tok) bool {
	if t.K != "op" {
		return false
	}
	for _, o := range augOps {
		if t.S == o {
			return true
		}
	}
	return false
}

func (p *rparser) small() *N {
	t := p.peek()
	if t.K == "kw" {
		switch t.S {
		case "return":
			p.next()
			n := mk("return", t.Line, t.Col)
			if nt := p.peek(); nt.K != "nl" && !(nt.K == "op" && nt.S == ";") {
				n.A = []*N{p.expression(0).n}
			}
			return n
		case "break", "continue", "pass":
			p.next()
			return mk(t.S, t.Line, t.Col)
		case "load":
			return p.load()
		}
	}
	x := p.expression(0)
	if op := p.peek(); isAug(op) {
		p.next()
		y := p.expression(0)
		n := mk("assign", x.l, x.c, x.n, y.n)
		n.Op = op.S
		return n
	}
	return mk("expr", x.l, x.c, x.n)
}

func (p *rparser) strTok() *N {
	t := p.peek()
	if t.K != "str" {
		p.fail("want a string literal")
	}
	p.next()
	return &N{K: "str", Text: t.S, Val: t.V, Line: t.Line, Col: t.Col}
}

func (p *rparser) load() *N {
	t := p.next()
	p.expect("op", "(")
	n := mk("load", t.Line, t.Col, p.strTok())
	for p.isOp(",") {
		p.next()
		if p.isOp(")") {
			break
		}
		f := p.peek()
		it := &N{K: "litem", Line: f.Line, Col: f.Col}
		if f.K == "id" {
			p.next()
			it.Name = f.S
			p.expect("op", "=")
		}
		s := p.strTok()
		s.NoPos = !plainQuoted(s.Text)
		it.A = []*N{s}
		n.A = append(n.A, it)
	}
	p.expect("op", ")")
	if len(n.A) < 2 {
		p.fail("load statement must import at least one symbol")
	}
	return n
}

func (p *rparser) ident() *N {
	t := p.peek()
	if t.K != "id" {
		p.fail("want an identifier")
	}
	p.next()
	return &N{K: "id", Name: t.S, Line: t.Line, Col: t.Col}
}

func (p *rparser) def() *N {
	t := p.next()
	n := mk("def", t.Line, t.Col, p.ident())
	p.expect("op", "(")
	n.A = append(n.A, p.params(")", true)...)
	p.expect("op", ")")
	n.B = p.suite()
	return n
}

func (p *rparser) ifStmt() *N {
	t := p.next() // if or elif
	cond := p.test()
	n := mk("if", t.Line, t.Col, cond.n)
	n.B = p.suite()
	switch {
	case p.isKw("elif"):
		n.Elif = true
		n.C = []*N{p.ifStmt()}
	case p.isKw("else"):
		p.next()
		n.C = p.suite()
	}
	return n
}

// params parses Parameters up to (not including) the closing token.
func (p *rparser) params(closer string, trailingComma bool) []*N {
	var out []*N
	for !p.isOp(closer) {
		if len(out) > 0 {
			p.expect("op", ",")
			if p.isOp(closer) {
				if !trailingComma {
					p.fail("trailing comma in lambda parameters")
				}
				break
			}
		}
		t := p.peek()
		switch {
		case t.K == "op" && t.S == "*":
			p.next()
			if p.peek().K == "id" {
				out = append(out, mk("pargs", t.Line, t.Col, p.ident()))
			} else {
				out = append(out, mk("pstar", t.Line, t.Col))
			}
		case t.K == "op" && t.S == "**":
			p.next()
			out = append(out, mk("pkw", t.Line, t.Col, p.ident()))
		default:
			id := p.ident()
			if p.isOp("=") {
				p.next()
				out = append(out, mk("pdef", t.Line, t.Col, id, p.test().n))
			} else {
				out = append(out, id)
			}
		}
	}
	return out
}

// ---------------------------------------------------------------- expressions

// startsTest reports whether t can begin a Test.
func startsTest(t Tok) bool {
	switch t.K {
	case "id", "int", "float", "str", "bytes":
		return true
	case "kw":
		return t.S == "lambda" || t.S == "not"
	case "op":
		switch t.S {
		case "(", "[", "{", "-", "+", "~":
			return true
		}
	}
	return false
}

// expression parses Test {',' Test}. trailing: 0 = a trailing comma is an
// error (unparenthesised), 1 = allowed (inside parentheses), 2 = no verdict
// (index brackets: the grammar note allows it "within [...]").
func (p *rparser) expression(trailing int) pe {
	first := p.test()
	if !p.isOp(",") {
		return first
	}
	tup := mk("tuple", first.l, first.c, first.n)
	for p.isOp(",") {
		p.next()
		if !startsTest(p.peek()) {
			switch trailing {
			case 0:
				p.fail("unparenthesised tuple with a trailing comma")
			case 2:
				p.doubt("trailing comma in index brackets")
			}
			break
		}
		tup.A = append(tup.A, p.test().n)
	}
	return pe{tup, first.l, first.c}
}

func (p *rparser) test() pe {
	if p.isKw("lambda") {
		return p.lambda(false)
	}
	x := p.binary(pOr)
	if p.isKw("if") {
		p.next()
		c := p.binary(pOr)
		p.expect("kw", "else")
		f := p.test()
		return pe{mk("cond", x.l, x.c, x.n, c.n, f.n), x.l, x.c}
	}
	return x
}

func (p *rparser) testNoCond() pe {
	if p.isKw("lambda") {
		return p.lambda(true)
	}
	return p.binary(pOr)
}

func (p *rparser) lambda(nocond bool) pe {
	t := p.next()
	n := mk("lambda", t.Line, t.Col)
	n.A = p.params(":", false)
	p.expect("op", ":")
	var body pe
	if nocond {
		body = p.testNoCond()
	} else {
		body = p.test()
	}
	n.A = append(n.A, body.n)
	return pe{n, t.Line, t.Col}
}

// binop returns the binary operator at the cursor and its token count.
func (p *rparser) binop() (string, int) {
	t := p.peek()
	switch t.K {
	case "kw":
		switch t.S {
		case "or", "and", "in":
			return t.S, 1
		case "not":
			if n := p.peek2(); n.K == "kw" && n.S == "in" {
				return "not in", 2
			}
		}
	case "op":
		if binPrec(t.S) >= 0 {
			return t.S, 1
		}
	}
	return "", 0
}

func (p *rparser) binary(level int) pe {
	if level == pNot {
		if p.isKw("not") {
			t := p.next()
			x := p.binary(pNot)
			n := mk("un", t.Line, t.Col, x.n)
			n.Op = "not"
			return pe{n, t.Line, t.Col}
		}
		return p.binary(pCmp)
	}
	if level > pMul {
		return p.unary()
	}
	x := p.binary(level + 1)
	for first := true; ; first = false {
		op, k := p.binop()
		if op == "" || binPrec(op) != level {
			return x
		}
		if level == pCmp && !first {
			p.fail("comparison operators do not associate")
		}
		p.i += k
		y := p.binary(level + 1)
		n := mk("bin", x.l, x.c, x.n, y.n)
		n.Op = op
		x = pe{n, x.l, x.c}
	}
}

func (p *rparser) unary() pe {
	t := p.peek()
	if t.K == "op" && (t.S == "-" || t.S == "+" || t.S == "~") {
		p.next()
		x := p.unary()
		n := mk("un", t.Line, t.Col, x.n)
		n.Op = t.S
		return pe{n, t.Line, t.Col}
	}
	return p.primary()
}

func (p *rparser) primary() pe {
	x := p.operand()
	for {
		t := p.peek()
		if t.K != "op" {
			return x
		}
		switch t.S {
		case ".":
			p.next()
			x = pe{mk("dot", x.l, x.c, x.n, p.ident()), x.l, x.c}
		case "(":
			p.next()
			n := mk("call", x.l, x.c, x.n)
			n.A = append(n.A, p.args()...)
			p.expect("op", ")")
			x = pe{n, x.l, x.c}
		case "[":
			p.next()
			var lo, hi, step *N
			if !p.isOp(":") {
				y := p.expression(2)
				if p.isOp("]") {
					p.next()
					x = pe{mk("index", x.l, x.c, x.n, y.n), x.l, x.c}
					continue
				}
				lo = y.n
			}
			p.expect("op", ":")
			if !p.isOp(":") && !p.isOp("]") {
				hi = p.test().n
			}
			if p.isOp(":") {
				p.next()
				if !p.isOp("]") {
					step = p.test().n
				}
			}
			p.expect("op", "]")
			x = pe{mk("slice", x.l, x.c, x.n, lo, hi, step), x.l, x.c}
		default:
			return x
		}
	}
}

func (p *rparser) args() []*N {
	var out []*N
	for !p.isOp(")") {
		if len(out) > 0 {
			p.expect("op", ",")
			if p.isOp(")") {
				break
			}
		}
		t := p.peek()
		switch {
		case t.K == "op" && t.S == "*":
			p.next()
			out = append(out, mk("star", t.Line, t.Col, p.test().n))
		case t.K == "op" && t.S == "**":
			p.next()
			out = append(out, mk("sstar", t.Line, t.Col, p.test().n))
		case t.K == "id" && p.peek2().K == "op" && p.peek2().S == "=":
			id := p.ident()
			p.next()
			out = append(out, mk("named", t.Line, t.Col, id, p.test().n))
		default:
			out = append(out, p.test().n)
		}
	}
	return out
}

func (p *rparser) operand() pe {
	t := p.peek()
	switch t.K {
	case "id":
		p.next()
		return pe{&N{K: "id", Name: t.S, Line: t.Line, Col: t.Col}, t.Line, t.Col}
	case "int", "float", "str", "bytes":
		p.next()
		return pe{&N{K: t.K, Text: t.S, Val: t.V, Line: t.Line, Col: t.Col}, t.Line, t.Col}
	case "op":
		switch t.S {
		case "(":
			p.next()
			if p.isOp(")") {
				p.next()
				return pe{mk("tuple", t.Line, t.Col), t.Line, t.Col}
			}
			e := p.expression(1)
			p.expect("op", ")")
			return pe{e.n, t.Line, t.Col}
		case "[":
			p.next()
			n := mk("list", t.Line, t.Col)
			if p.isOp("]") {
				p.next()
				return pe{n, t.Line, t.Col}
			}
			first := p.test()
			if p.isKw("for") {
				n.K = "lcomp"
				n.A = append([]*N{first.n}, p.clauses("]")...)
				return pe{n, t.Line, t.Col}
			}
			n.A = []*N{first.n}
			for p.isOp(",") {
				p.next()
				if p.isOp("]") {
					break
				}
				n.A = append(n.A, p.test().n)
			}
			p.expect("op", "]")
			return pe{n, t.Line, t.Col}
		case "{":
			p.next()
			n := mk("dict", t.Line, t.Col)
			if p.isOp("}") {
				p.next()
				return pe{n, t.Line, t.Col}
			}
			first := p.entry()
			if p.isKw("for") {
				n.K = "dcomp"
				n.A = append([]*N{first}, p.clauses("}")...)
				return pe{n, t.Line, t.Col}
			}
			n.A = []*N{first}
			for p.isOp(",") {
				p.next()
				if p.isOp("}") {
					break
				}
				n.A = append(n.A, p.entry())
			}
			p.expect("op", "}")
			return pe{n, t.Line, t.Col}
		}
	}
	p.fail("want an operand")
	return pe{}
}

func (p *rparser) entry() *N {
	k := p.test()
	p.expect("op", ":")
	v := p.test()
	return mk("entry", k.l, k.c, k.n, v.n)
}

// clauses parses {CompClause} and the closing bracket; the caller has seen 'for'.
func (p *rparser) clauses(closer string) []*N {
	var out []*N
	for !p.isOp(closer) {
		t := p.peek()
		switch {
		case p.isKw("for"):
			p.next()
			vars := p.loopVars()
			p.expect("kw", "in")
			// not a conditional, lambda or unparenthesised tuple (spec, "Comprehensions")
			x := p.binary(pOr)
			out = append(out, mk("cfor", t.Line, t.Col, vars.n, x.n))
		case p.isKw("if"):
			p.next()
			out = append(out, mk("cif", t.Line, t.Col, p.testNoCond().n))
		default:
			p.fail("want for, if or %q", closer)
		}
	}
	p.next()
	return out
}

// loopVars parses PrimaryExpr {',' PrimaryExpr}.
func (p *rparser) loopVars() pe {
	first := p.unary()
	if !p.isOp(",") {
		return first
	}
	tup := mk("tuple", first.l, first.c, first.n)
	for p.isOp(",") {
		p.next()
		tup.A = append(tup.A, p.unary().n)
	}
	return pe{tup, first.l, first.c}
}
