// C17: compiled programs survive serialization unchanged.
package c17

import (
	"bytes"
	"fmt"
	"sort"
	"strings"
	"testing"

	"go.starlark.net/starlark"
	"go.starlark.net/syntax"
	"pgregory.net/rapid"
	"verif/harness/gen"
	"verif/harness/run"
	"verif/harness/vk"
)

func TestMain(m *testing.M) {
	vk.Describe("generated programs (as C01, plus big-int/float/bytes/odd string constants, docstrings, keyword-only parameters, nested closures, loads, recursion on/off, "+
		"padded layouts that saturate the position table): P = SourceProgramOptions(src); B = P.Write(); Q = CompiledProgram(B). "+
		"Q.Init and P.Init in fresh environments must give identical effect trace, canonical globals, error text and full call stack positions; "+
		"identical metadata for every function reachable from the globals (Doc, params with positions and defaults, varargs/kwargs/kwonly, free variables, position); "+
		"identical NumLoads/Load(i)/Filename; and Q.Write() == B byte for byte. "+
		"Non-trivial = program uses >=2 of {closure (nested def / comprehension closure), keyword-only parameter, big/float/bytes/odd-string constant, load, failing run with call depth >=2, recursion on}; distinct by source.",
		"only bytes produced by Program.Write are decoded (decoding arbitrary bytes is nobody's claim)",
		"differential within one implementation: a defect that affects source-compiled and deserialized programs alike is C01's to find")
	vk.Main(m, "C17")
}

type fnMeta struct {
	Name, Doc             string
	Pos                   string
	NumParams, NumKwonly  int
	HasVarargs, HasKwargs bool
	Params                []string
	Defaults              []string
	FreeVars              []string
}

func metaOf(fn *starlark.Function) fnMeta {
	m := fnMeta{Name: fn.Name(), Doc: fn.Doc(), Pos: fn.Position().String(), NumParams: fn.NumParams(), NumKwonly: fn.NumKwonlyParams(),
		HasVarargs: fn.HasVarargs(), HasKwargs: fn.HasKwargs()}
	for i := 0; i < fn.NumParams(); i++ {
		n, pos := fn.Param(i)
		m.Params = append(m.Params, fmt.Sprintf("%s@%s", n, pos))
		d := fn.ParamDefault(i)
		if d == nil {
			m.Defaults = append(m.Defaults, "<none>")
		} else {
			m.Defaults = append(m.Defaults, d.String())
		}
	}
	for i := 0; i < fn.NumFreeVars(); i++ {
		b, v := fn.FreeVar(i)
		s := "<unset>"
		if v != nil {
			s = v.Type()
		}
		m.FreeVars = append(m.FreeVars, fmt.Sprintf("%s@%s=%s", b.Name, b.Pos, s))
	}
	return m
}

// functions reachable from globals (through containers, defaults and free variables), in a deterministic order.
func reachableFunctions(g starlark.StringDict) []fnMeta {
	var names []string
	for n := range g {
		names = append(names, n)
	}
	sort.Strings(names)
	seen := map[starlark.Value]bool{}
	var out []fnMeta
	var visit func(v starlark.Value, depth int)
	visit = func(v starlark.Value, depth int) {
		if v == nil || depth > 12 {
			return
		}
		switch v := v.(type) {
		case *starlark.Function:
			if seen[v] {
				return
			}
			seen[v] = true
			out = append(out, metaOf(v))
			for i := 0; i < v.NumParams(); i++ {
				visit(v.ParamDefault(i), depth+1)
			}
			for i := 0; i < v.NumFreeVars(); i++ {
				_, x := v.FreeVar(i)
				visit(x, depth+1)
			}
		case *starlark.List:
			if seen[v] {
				return
			}
			seen[v] = true
			for i := 0; i < v.Len(); i++ {
				visit(v.Index(i), depth+1)
			}
		case starlark.Tuple:
			for _, e := range v {
				visit(e, depth+1)
			}
		case *starlark.Dict:
			if seen[v] {
				return
			}
			seen[v] = true
			for _, it := range v.Items() {
				visit(it[0], depth+1)
				visit(it[1], depth+1)
			}
		case starlark.HasAttrs:
			if v.Type() == "rec" {
				for _, n := range v.AttrNames() {
					x, _ := v.Attr(n)
					visit(x, depth+1)
				}
			}
		}
	}
	for _, n := range names {
		visit(g[n], 0)
	}
	return out
}

func frames(o *run.Outcome) string {
	var ee *starlark.EvalError
	if o.Err == nil {
		return ""
	}
	if e, ok := o.Err.(*starlark.EvalError); ok {
		ee = e
	} else {
		return o.Err.Error()
	}
	s := ""
	for _, fr := range ee.CallStack {
		s += fmt.Sprintf("%s@%s;", fr.Name, fr.Pos)
	}
	return s + " | " + ee.Backtrace()
}

func checkSerial(p gen.Program) error {
	isPre := run.Predeclared()
	_, prog, err := starlark.SourceProgramOptions(p.Opts.FileOptions(), "prog.star", p.Src, isPre)
	if err != nil {
		return fmt.Errorf("statically valid program rejected: %v", err)
	}
	var buf bytes.Buffer
	if err := prog.Write(&buf); err != nil {
		return fmt.Errorf("Write failed: %v", err)
	}
	b := buf.Bytes()
	q, err := starlark.CompiledProgram(bytes.NewReader(b))
	if err != nil {
		return fmt.Errorf("CompiledProgram rejects the output of Write: %v", err)
	}
	// Other programs are decoded (and one is run) between reading q back and using it: a decoded program
	// must not share storage with the reader's buffers or with programs decoded later.
	for i := 0; i < 3; i++ {
		d, err := starlark.CompiledProgram(bytes.NewReader(decoyBytes[i%len(decoyBytes)]))
		if err != nil {
			return fmt.Errorf("decoy program rejected: %v", err)
		}
		if i == 1 {
			d.Init(&starlark.Thread{Name: "decoy"}, nil)
		}
	}
	var buf2 bytes.Buffer
	if err := q.Write(&buf2); err != nil {
		return fmt.Errorf("second Write failed: %v", err)
	}
	if !bytes.Equal(b, buf2.Bytes()) {
		i := 0
		for i < len(b) && i < buf2.Len() && b[i] == buf2.Bytes()[i] {
			i++
		}
		return fmt.Errorf("re-serialization differs at byte %d (lengths %d vs %d)", i, len(b), buf2.Len())
	}
	if prog.Filename() != q.Filename() || prog.NumLoads() != q.NumLoads() {
		return fmt.Errorf("Filename/NumLoads differ: %q/%d vs %q/%d", prog.Filename(), prog.NumLoads(), q.Filename(), q.NumLoads())
	}
	for i := 0; i < prog.NumLoads(); i++ {
		n1, p1 := prog.Load(i)
		n2, p2 := q.Load(i)
		if n1 != n2 || p1.String() != p2.String() {
			return fmt.Errorf("Load(%d) differs: %s@%s vs %s@%s", i, n1, p1, n2, p2)
		}
	}
	oa := run.ImplWith(p, func(th *starlark.Thread, pre starlark.StringDict) (starlark.StringDict, error) {
		return prog.Init(th, pre)
	})
	ob := run.ImplWith(p, func(th *starlark.Thread, pre starlark.StringDict) (starlark.StringDict, error) {
		return q.Init(th, pre)
	})
	if oa.Budget && ob.Budget {
		vk.S.Discard()
		return nil
	}
	nfeat := 0
	has := map[string]bool{}
	for _, f := range p.Features {
		has[f] = true
	}
	for _, f := range []string{"nested-def", "kwonly", "load", "recursion", "consts", "padded"} {
		if has[f] {
			nfeat++
			vk.S.Class("feature:" + f)
		}
	}
	if oa.Failed && len(oa.Frames) >= 2 {
		nfeat++
		vk.S.Class("feature:deep-failure")
	}
	if oa.Failed {
		vk.S.Class("outcome:fail")
	} else {
		vk.S.Class("outcome:ok")
	}
	if nfeat >= 2 {
		vk.S.NonTrivial(p.Src)
		vk.S.Sample("serial", fmt.Sprintf("features=%d", nfeat), p)
	}
	if d := run.Compare(oa, ob); d != "" {
		return fmt.Errorf("original vs deserialized: %s", d)
	}
	if oa.ErrMsg != ob.ErrMsg {
		return fmt.Errorf("error text differs: %q vs %q", oa.ErrMsg, ob.ErrMsg)
	}
	if fa, fb := frames(oa), frames(ob); fa != fb {
		return fmt.Errorf("call stack / backtrace differs:\n%s\nvs\n%s", fa, fb)
	}
	if oa.Steps != ob.Steps {
		return fmt.Errorf("executed steps differ: %d vs %d", oa.Steps, ob.Steps)
	}
	// Writing is a pure function of the program: having executed it, failed in it and formatted its
	// backtrace (which materialises lazily decoded tables) must not change the bytes - for the original and for the copy.
	for i, pr := range []*starlark.Program{prog, q} {
		var again bytes.Buffer
		if err := pr.Write(&again); err != nil {
			return fmt.Errorf("Write after execution failed (program %d): %v", i, err)
		}
		if !bytes.Equal(b, again.Bytes()) {
			j := 0
			for j < len(b) && j < again.Len() && b[j] == again.Bytes()[j] {
				j++
			}
			return fmt.Errorf("Write after execution differs from Write before it (program %d) at byte %d (lengths %d vs %d)", i, j, len(b), again.Len())
		}
	}
	ma, mb := reachableFunctions(oa.Raw), reachableFunctions(ob.Raw)
	if sa, sb := fmt.Sprintf("%+v", ma), fmt.Sprintf("%+v", mb); sa != sb {
		return fmt.Errorf("function metadata differs:\n%s\nvs\n%s", sa, sb)
	}
	return nil
}

var subSerial = vk.Register("serial", checkSerial)

// decoyBytes are serialised unrelated programs of different sizes (longer and shorter than typical cases).
var decoyBytes = func() [][]byte {
	var out [][]byte
	for _, src := range []string{
		"DECOY_A = \"" + strings.Repeat("decoy-string-constant-", 200) + "\"\ndef decoy_fn(decoy_param = 12345678901234567890):\n    \"decoy doc\"\n    return [decoy_param, b\"decoy-bytes\", 2.5]\nDECOY_B = decoy_fn()\n",
		"Z = 1\n",
		"load(\"decoy_module.star\", \"decoy_name\")\n" + strings.Repeat("DECOY_PAD = (lambda decoy_x: decoy_x + 1)(1)\n", 60),
	} {
		_, prog, err := starlark.SourceProgramOptions(&syntax.FileOptions{GlobalReassign: true}, "decoy-file-name.star", src, func(string) bool { return false })
		if err != nil {
			panic(err)
		}
		var buf bytes.Buffer
		prog.Write(&buf)
		out = append(out, buf.Bytes())
	}
	return out
}()

func TestPropSerial(t *testing.T) {
	vk.Rapid(t, subSerial, vk.N(2500, 25000), func(t *rapid.T) gen.Program {
		return gen.Generate(t, gen.Config{MaxStmts: 40, ErrRate: 0.015, BigConsts: true, Docstrings: true})
	})
}

func TestPropSerialPadded(t *testing.T) {
	vk.Rapid(t, subSerial, vk.N(600, 5000), func(t *rapid.T) gen.Program {
		p := gen.Generate(t, gen.Config{MaxStmts: 30, ErrRate: 0.03, BigConsts: true, Docstrings: true})
		p.Src = gen.Pad(t, p.Src, vk.N(3000, 40000))
		p.Features = append(p.Features, "padded")
		return p
	})
}

// Lines longer than 2^16 columns: positions of bindings and functions behind the 16-bit column boundary.
func TestPropSerialWide(t *testing.T) {
	vk.Rapid(t, subSerial, vk.N(300, 2500), func(t *rapid.T) gen.Program {
		p := gen.Generate(t, gen.Config{MaxStmts: 30, ErrRate: 0.05, BigConsts: true, Docstrings: true})
		p.Src = gen.Pad(t, p.Src, []int{65500, 65536, 70000, 131100}[vk.Uniform(t, 4)])
		p.Features = append(p.Features, "padded", "wide-line")
		return p
	})
}

func TestReplay(t *testing.T) { vk.Replay(t) }
