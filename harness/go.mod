module verif/harness

go 1.25.0

require (
	go.starlark.net v0.0.0
	google.golang.org/protobuf v1.36.11
	pgregory.net/rapid v1.3.0
)

require golang.org/x/sys v0.42.0 // indirect

replace go.starlark.net => /repo
